//! `MForest` — reference semantics of the manipulation API on plain ordered trees (DESIGN appendix A).
//! Operates on the snapshot forest (abstract trees with handle ids). Only in-contract calls are
//! predicted; for anything else `predict` returns `None`.
use crate::atree::*;
use crate::world::*;

#[derive(Clone, Debug)]
pub struct Prediction {
    pub forest: Vec<A>,
    /// ids (handle index + 1) that must be removed afterwards
    pub removed: Vec<u32>,
    /// (inserted text id, right neighbour id): which of the two survives a merge is not pinned
    pub lenient_pair: Option<(u32, u32)>,
    /// other outcomes the property leaves open (e.g. the fate of an attribute node whose key already exists)
    pub alternatives: Vec<Prediction>,
}

fn contains(a: &A, id: u32) -> bool {
    a.id == id || a.nss.iter().any(|n| n.id == id) || a.attrs.iter().any(|n| n.id == id) || a.ch.iter().any(|c| contains(c, id))
}

fn node_mut(forest: &mut [A], id: u32) -> Option<&mut A> {
    fn rec(a: &mut A, id: u32) -> Option<&mut A> {
        if a.id == id {
            return Some(a);
        }
        for c in a.ch.iter_mut() {
            if let Some(x) = rec(c, id) {
                return Some(x);
            }
        }
        None
    }
    for t in forest.iter_mut() {
        if let Some(x) = rec(t, id) {
            return Some(x);
        }
    }
    None
}

fn parent_of(forest: &[A], id: u32) -> Option<u32> {
    relations(forest).get(&id).and_then(|r| r.0)
}

fn collect_ids(a: &A, out: &mut Vec<u32>) {
    a.walk_all(&mut |n: &A| out.push(n.id));
}

/// take an ordinary node out of its parent's child list (or out of the forest if it is a root)
fn unlink(forest: &mut Vec<A>, id: u32) -> Option<(A, Option<(u32, usize)>)> {
    if let Some(i) = forest.iter().position(|t| t.id == id) {
        return Some((forest.remove(i), None));
    }
    let p = parent_of(forest, id)?;
    let pn = node_mut(forest, p)?;
    let pos = pn.ch.iter().position(|c| c.id == id)?;
    Some((pn.ch.remove(pos), Some((p, pos))))
}

struct M {
    forest: Vec<A>,
    consolidate: bool,
    removed: Vec<u32>,
    lenient_pair: Option<(u32, u32)>,
}

impl M {
    /// merge every run of adjacent text nodes under `parent`; `inserted` is the node just added (if any)
    fn normalise(&mut self, parent: u32, inserted: Option<u32>) {
        if !self.consolidate {
            return;
        }
        let mut removed = vec![];
        let mut lenient = None;
        if let Some(p) = node_mut(&mut self.forest, parent) {
            let mut out: Vec<A> = vec![];
            for c in p.ch.drain(..) {
                if c.k == K::Text {
                    if let Some(last) = out.last_mut() {
                        if last.k == K::Text {
                            let mut v = last.val.clone().unwrap_or_default();
                            v.push_str(c.val.as_deref().unwrap_or(""));
                            last.val = Some(v);
                            // survivor: the left (earlier) node, as the statement says. If the left node is the
                            // inserted one and this is its first merge, the alternative "the right neighbour keeps
                            // its identity, the inserted node is destroyed" is recorded as the lenient pair: it is
                            // what xot does on the insert paths, and C05 reports it under its own signature.
                            if Some(last.id) == inserted && lenient.is_none() {
                                lenient = Some((c.id, last.id));
                            }
                            removed.push(c.id);
                            continue;
                        }
                    }
                }
                out.push(c);
            }
            p.ch = out;
        }
        // a lenient pair is only meaningful if the inserted node had no text on its left
        self.removed.extend(removed);
        if lenient.is_some() {
            self.lenient_pair = lenient;
        }
    }

    fn remove_subtree(&mut self, a: &A) {
        collect_ids(a, &mut self.removed);
    }
}

fn ordinary(k: K) -> bool {
    k.normal()
}
fn container(k: K) -> bool {
    matches!(k, K::Doc | K::Elem)
}

/// expected parse results of world::PARSE_TEXTS / FRAGMENT_TEXTS
pub fn parse_expect(i: u8) -> A {
    use crate::nsscope::X;
    match i {
        0 => A::doc(vec![A::el("", "r").child(A::text("u")).child(A::el("", "s")).child(A::text("v"))]),
        1 => A::doc(vec![A::el("", "r").attr(XML_NS, "id", "i").child(A::el("", "s").attr(XML_NS, "id", "j"))]),
        2 => A::doc(vec![A::el(X, "r").decl("p", X).attr(X, "l", "1")]),
        _ => A::doc(vec![A::el("", "r").child(A::text("uv\nw\rx"))]),
    }
}
pub fn fragment_expect(i: u8) -> A {
    match i {
        0 => A::doc(vec![A::text("u"), A::el("", "s"), A::text("v")]),
        _ => A::doc(vec![A::el("", "s"), A::el("", "s")]),
    }
}

pub fn predict(w: &World, forest: &[A], op: &Op) -> Option<Prediction> {
    use Op::*;
    let mut m = M { forest: forest.to_vec(), consolidate: w.consolidation, removed: vec![], lenient_pair: None };
    let id = |h: &H| *h as u32 + 1;
    let get = |h: &H| find(forest, *h as u32 + 1);
    let done = |m: M| Some(Prediction { forest: m.forest, removed: m.removed, lenient_pair: m.lenient_pair, alternatives: vec![] });
    match op {
        Append(p, c) | Prepend(p, c) => {
            let (pn, cn) = (get(p)?, get(c)?);
            if !container(pn.k) || !ordinary(cn.k) || cn.k == K::Doc || contains(cn, pn.id) {
                return None;
            }
            let first = matches!(op, Prepend(..));
            let already = if first { pn.ch.first().map(|x| x.id) == Some(cn.id) } else { pn.ch.last().map(|x| x.id) == Some(cn.id) };
            if already {
                return done(m);
            }
            let (node, old) = unlink(&mut m.forest, cn.id)?;
            if let Some((op_, _)) = old {
                m.normalise(op_, None);
            }
            let pm = node_mut(&mut m.forest, pn.id)?;
            if first {
                pm.ch.insert(0, node);
            } else {
                pm.ch.push(node);
            }
            m.normalise(pn.id, Some(cn.id));
            done(m)
        }
        InsertAfter(r, c) | InsertBefore(r, c) => {
            let (rn, cn) = (get(r)?, get(c)?);
            let after = matches!(op, InsertAfter(..));
            let pid = parent_of(forest, rn.id)?;
            let pn = find(forest, pid)?;
            if !ordinary(rn.k) || !container(pn.k) || rn.id == cn.id || !ordinary(cn.k) || cn.k == K::Doc || contains(cn, pn.id) {
                return None;
            }
            let rpos = pn.ch.iter().position(|x| x.id == rn.id)?;
            let already = if after { pn.ch.get(rpos + 1).map(|x| x.id) == Some(cn.id) } else { rpos > 0 && pn.ch[rpos - 1].id == cn.id };
            if already {
                return done(m);
            }
            let (node, old) = unlink(&mut m.forest, cn.id)?;
            // Insert first (relative to the reference node, which is still there), then normalise both places:
            // equivalent to "seam at the old place, position re-targeted to the merged node".
            let pm = node_mut(&mut m.forest, pid)?;
            let rpos = pm.ch.iter().position(|x| x.id == rn.id)?;
            pm.ch.insert(if after { rpos + 1 } else { rpos }, node);
            if let Some((op_, _)) = old {
                if op_ != pid {
                    m.normalise(op_, None);
                }
            }
            m.normalise(pid, Some(cn.id));
            done(m)
        }
        Detach(n) => {
            let nn = get(n)?;
            if forest.iter().any(|t| t.id == nn.id) {
                return done(m);
            }
            let pid = parent_of(forest, nn.id)?;
            if ordinary(nn.k) {
                let (node, _) = unlink(&mut m.forest, nn.id)?;
                m.normalise(pid, None);
                m.forest.push(node);
            } else {
                let pm = node_mut(&mut m.forest, pid)?;
                let node = if nn.k == K::Attr {
                    let i = pm.attrs.iter().position(|x| x.id == nn.id)?;
                    pm.attrs.remove(i)
                } else {
                    let i = pm.nss.iter().position(|x| x.id == nn.id)?;
                    pm.nss.remove(i)
                };
                m.forest.push(node);
            }
            done(m)
        }
        Remove(n) => {
            let nn = get(n)?;
            m.remove_subtree(nn);
            if let Some(i) = m.forest.iter().position(|t| t.id == nn.id) {
                m.forest.remove(i);
                return done(m);
            }
            let pid = parent_of(forest, nn.id)?;
            if ordinary(nn.k) {
                unlink(&mut m.forest, nn.id)?;
                m.normalise(pid, None);
            } else {
                let pm = node_mut(&mut m.forest, pid)?;
                pm.attrs.retain(|x| x.id != nn.id);
                pm.nss.retain(|x| x.id != nn.id);
            }
            done(m)
        }
        Replace(a, b) => {
            let (an, bn) = (get(a)?, get(b)?);
            let pid = parent_of(forest, an.id)?;
            let pn = find(forest, pid)?;
            if !ordinary(an.k) || an.k == K::Doc || !container(pn.k) || !ordinary(bn.k) || bn.k == K::Doc || an.id == bn.id || contains(an, bn.id) || contains(bn, an.id) || contains(bn, pid) {
                return None;
            }
            m.remove_subtree(an);
            let (node, old) = unlink(&mut m.forest, bn.id)?;
            let pm = node_mut(&mut m.forest, pid)?;
            let apos = pm.ch.iter().position(|x| x.id == an.id)?;
            pm.ch[apos] = node;
            if let Some((op_, _)) = old {
                if op_ != pid {
                    m.normalise(op_, None);
                }
            }
            m.normalise(pid, Some(bn.id));
            done(m)
        }
        Wrap(n) => {
            let nn = get(n)?;
            if !ordinary(nn.k) || nn.k == K::Doc {
                return None;
            }
            let parent = parent_of(forest, nn.id);
            if let Some(pid) = parent {
                let pn = find(forest, pid)?;
                if pn.k == K::Doc && nn.k != K::Elem {
                    return None;
                }
                let pm = node_mut(&mut m.forest, pid)?;
                let pos = pm.ch.iter().position(|x| x.id == nn.id)?;
                let inner = pm.ch.remove(pos);
                pm.ch.insert(pos, A::el("", "w").child(inner));
            } else {
                let i = m.forest.iter().position(|t| t.id == nn.id)?;
                let inner = m.forest.remove(i);
                m.forest.push(A::el("", "w").child(inner));
            }
            done(m)
        }
        Unwrap(e) => {
            let en = get(e)?;
            if en.k != K::Elem {
                return None;
            }
            let parent = parent_of(forest, en.id);
            m.removed.push(en.id);
            for x in en.nss.iter().chain(en.attrs.iter()) {
                m.removed.push(x.id);
            }
            match parent {
                Some(pid) => {
                    let pm = node_mut(&mut m.forest, pid)?;
                    let pos = pm.ch.iter().position(|x| x.id == en.id)?;
                    let el = pm.ch.remove(pos);
                    for (i, c) in el.ch.into_iter().enumerate() {
                        pm.ch.insert(pos + i, c);
                    }
                    m.normalise(pid, None);
                }
                None => {
                    if en.ch.len() > 1 {
                        return None;
                    }
                    let i = m.forest.iter().position(|t| t.id == en.id)?;
                    let el = m.forest.remove(i);
                    for c in el.ch {
                        m.forest.push(c);
                    }
                }
            }
            done(m)
        }
        CloneNode(n) => {
            let nn = get(n)?;
            let mut c = nn.strip_ids();
            if m.consolidate {
                c = c.merge_text();
            }
            m.forest.push(c);
            done(m)
        }
        AppendText(p, s) => {
            let pn = get(p)?;
            if !container(pn.k) {
                return None;
            }
            let pm = node_mut(&mut m.forest, pn.id)?;
            if m.consolidate && pm.ch.last().map(|x| x.k == K::Text).unwrap_or(false) {
                let last = pm.ch.last_mut().unwrap();
                let mut v = last.val.clone().unwrap_or_default();
                v.push_str(s);
                last.val = Some(v);
            } else {
                pm.ch.push(A::text(s));
            }
            done(m)
        }
        AppendElement(p) | AppendComment(p) => {
            let pn = get(p)?;
            if !container(pn.k) {
                return None;
            }
            let pm = node_mut(&mut m.forest, pn.id)?;
            pm.ch.push(if matches!(op, AppendElement(_)) { A::el("", "n") } else { A::comment("nc") });
            done(m)
        }
        SetAttr(e, a, v) => {
            let en = get(e)?;
            if en.k != K::Elem {
                return None;
            }
            let (ns, l) = ATTR_NAMES[*a as usize];
            let em = node_mut(&mut m.forest, en.id)?;
            match em.attrs.iter_mut().find(|x| x.ns == ns && x.name == l) {
                Some(x) => x.val = Some(v.clone()),
                None => em.attrs.push(A::attr_node(ns, l, v)),
            }
            done(m)
        }
        RemoveAttr(e, a) => {
            let en = get(e)?;
            if en.k != K::Elem {
                return None;
            }
            let (ns, l) = ATTR_NAMES[*a as usize];
            let em = node_mut(&mut m.forest, en.id)?;
            if let Some(i) = em.attrs.iter().position(|x| x.ns == ns && x.name == l) {
                let x = em.attrs.remove(i);
                m.removed.push(x.id);
            }
            done(m)
        }
        SetNs(e, p, u) => {
            let en = get(e)?;
            if en.k != K::Elem {
                return None;
            }
            let (p, u) = (PREFIXES[*p as usize], URIS[*u as usize]);
            let em = node_mut(&mut m.forest, en.id)?;
            match em.nss.iter_mut().find(|x| x.name == p) {
                Some(x) => x.ns = u.to_string(),
                None => em.nss.push(A::ns_node(p, u)),
            }
            done(m)
        }
        RemoveNs(e, p) => {
            let en = get(e)?;
            if en.k != K::Elem {
                return None;
            }
            let p = PREFIXES[*p as usize];
            let em = node_mut(&mut m.forest, en.id)?;
            if let Some(i) = em.nss.iter().position(|x| x.name == p) {
                let x = em.nss.remove(i);
                m.removed.push(x.id);
            }
            done(m)
        }
        AttrsClear(e) | NssClear(e) => {
            let en = get(e)?;
            if en.k != K::Elem {
                return None;
            }
            let em = node_mut(&mut m.forest, en.id)?;
            let gone: Vec<A> = if matches!(op, AttrsClear(_)) { em.attrs.drain(..).collect() } else { em.nss.drain(..).collect() };
            for g in gone {
                m.removed.push(g.id);
            }
            done(m)
        }
        SetElementName(e) => {
            let en = get(e)?;
            if en.k != K::Elem {
                return None;
            }
            let em = node_mut(&mut m.forest, en.id)?;
            em.ns = crate::nsscope::X.to_string();
            em.name = "z".to_string();
            done(m)
        }
        SetText(n, s) => {
            let nn = get(n)?;
            if nn.k != K::Text {
                return None;
            }
            node_mut(&mut m.forest, nn.id)?.val = Some(s.clone());
            done(m)
        }
        SetComment(n, s) => {
            let nn = get(n)?;
            if nn.k != K::Comment || s.contains("--") {
                return None;
            }
            node_mut(&mut m.forest, nn.id)?.val = Some(s.clone());
            done(m)
        }
        SetPiData(n, d) => {
            let nn = get(n)?;
            if nn.k != K::Pi {
                return None;
            }
            node_mut(&mut m.forest, nn.id)?.val = d.clone().filter(|x| !x.is_empty());
            done(m)
        }
        SetAttrValue(n, s) => {
            let nn = get(n)?;
            if nn.k != K::Attr {
                return None;
            }
            // attribute nodes live in their element's list
            let idn = nn.id;
            fn set(a: &mut A, id: u32, s: &str) -> bool {
                if a.id == id {
                    a.val = Some(s.to_string());
                    return true;
                }
                for x in a.attrs.iter_mut() {
                    if x.id == id {
                        x.val = Some(s.to_string());
                        return true;
                    }
                }
                a.ch.iter_mut().any(|c| set(c, id, s))
            }
            if !m.forest.iter_mut().any(|t| set(t, idn, s)) {
                return None;
            }
            done(m)
        }
        TextContentMut(e, s) => {
            let en = get(e)?;
            if en.k == K::Elem && en.ch.is_empty() {
                node_mut(&mut m.forest, en.id)?.ch.push(A::text(s));
                return done(m);
            }
            if container(en.k) && en.ch.len() == 1 && en.ch[0].k == K::Text {
                node_mut(&mut m.forest, en.ch[0].id)?.val = Some(s.clone());
                return done(m);
            }
            None
        }
        AppendAttrNode(e, a) | AppendNsNode(e, a) | AnyAppend(e, a) => {
            let (en, an) = (get(e)?, get(a)?);
            if let AnyAppend(..) = op {
                if ordinary(an.k) {
                    return predict(w, forest, &Append(*e, *a));
                }
            }
            let want = match op {
                AppendAttrNode(..) => K::Attr,
                AppendNsNode(..) => K::Ns,
                _ => an.k,
            };
            if en.k != K::Elem || an.k != want || !matches!(an.k, K::Attr | K::Ns) {
                return None;
            }
            let is_attr = an.k == K::Attr;
            let existing = if is_attr { en.attrs.iter().find(|x| x.ns == an.ns && x.name == an.name) } else { en.nss.iter().find(|x| x.name == an.name) };
            if let Some(ex) = existing {
                if ex.id == an.id {
                    return done(m);
                }
                let exid = ex.id;
                let em = node_mut(&mut m.forest, en.id)?;
                if is_attr {
                    em.attrs.iter_mut().find(|x| x.id == exid)?.val = an.val.clone();
                } else {
                    em.nss.iter_mut().find(|x| x.id == exid)?.ns = an.ns.clone();
                }
                // The entry that holds the key keeps its node and position and takes the value. What becomes of the
                // node that was passed in is not pinned by the property: it may stay where it was (main prediction),
                // be consumed (removed), or be left detached.
                let mut alts = vec![];
                for consumed in [true, false] {
                    let mut f2 = m.forest.clone();
                    let was_root = f2.iter().position(|t| t.id == an.id);
                    if let Some(i) = was_root {
                        if !consumed {
                            continue; // detached == stays where it was
                        }
                        f2.remove(i);
                    } else {
                        let pid = parent_of(forest, an.id)?;
                        let pm = node_mut(&mut f2, pid)?;
                        pm.attrs.retain(|x| x.id != an.id);
                        pm.nss.retain(|x| x.id != an.id);
                        if !consumed {
                            f2.push(an.clone());
                        }
                    }
                    let mut removed = m.removed.clone();
                    if consumed {
                        removed.push(an.id);
                    }
                    alts.push(Prediction { forest: f2, removed, lenient_pair: None, alternatives: vec![] });
                }
                let mut p = done(m)?;
                p.alternatives = alts;
                return Some(p);
            }
            // move the node
            let node = an.clone();
            if let Some(i) = m.forest.iter().position(|t| t.id == an.id) {
                m.forest.remove(i);
            } else {
                let pid = parent_of(forest, an.id)?;
                let pm = node_mut(&mut m.forest, pid)?;
                pm.attrs.retain(|x| x.id != an.id);
                pm.nss.retain(|x| x.id != an.id);
            }
            let em = node_mut(&mut m.forest, en.id)?;
            if is_attr {
                em.attrs.push(node);
            } else {
                em.nss.push(node);
            }
            done(m)
        }
        NewElement => {
            m.forest.push(A::el("", "n"));
            done(m)
        }
        NewText(s) => {
            m.forest.push(A::text(s));
            done(m)
        }
        NewComment => {
            m.forest.push(A::comment("nc"));
            done(m)
        }
        NewPi => {
            m.forest.push(A::pi("npi", Some("d")));
            done(m)
        }
        NewAttr(a) => {
            let (ns, l) = ATTR_NAMES[*a as usize];
            m.forest.push(A::attr_node(ns, l, "n"));
            done(m)
        }
        NewNs(p, u) => {
            m.forest.push(A::ns_node(PREFIXES[*p as usize], URIS[*u as usize]));
            done(m)
        }
        NewDocument => {
            m.forest.push(A::doc(vec![]));
            done(m)
        }
        AppendPi(p) => {
            let pn = get(p)?;
            if !container(pn.k) {
                return None;
            }
            node_mut(&mut m.forest, pn.id)?.ch.push(A::pi("npi", Some("d")));
            done(m)
        }
        AppendNamespace(e, p, u) => {
            let en = get(e)?;
            if en.k != K::Elem {
                return None;
            }
            let (pf, uri) = (PREFIXES[*p as usize], URIS[*u as usize]);
            let em = node_mut(&mut m.forest, en.id)?;
            match em.nss.iter_mut().find(|x| x.name == pf) {
                // an existing declaration of the prefix keeps its node and position and takes the new URI
                Some(x) => x.ns = uri.to_string(),
                None => em.nss.push(A::ns_node(pf, uri)),
            }
            done(m)
        }
        NewDocumentWithElement(e) => {
            let en = get(e)?;
            if en.k != K::Elem {
                return None;
            }
            let (node, old) = unlink(&mut m.forest, en.id)?;
            if let Some((op_, _)) = old {
                m.normalise(op_, None);
            }
            m.forest.push(A::doc(vec![node]));
            done(m)
        }
        ElementMutSetName(e) => {
            let en = get(e)?;
            if en.k != K::Elem {
                return None;
            }
            let em = node_mut(&mut m.forest, en.id)?;
            em.ns = crate::nsscope::X.to_string();
            em.name = "z".to_string();
            done(m)
        }
        NsNodeSetNamespace(n, u) => {
            let nn = get(n)?;
            if nn.k != K::Ns {
                return None;
            }
            let idn = nn.id;
            fn set(a: &mut A, id: u32, u: &str) -> bool {
                if a.id == id {
                    a.ns = u.to_string();
                    return true;
                }
                a.nss.iter_mut().any(|x| set(x, id, u)) || a.ch.iter_mut().any(|x| set(x, id, u))
            }
            if !m.forest.iter_mut().any(|t| set(t, idn, URIS[*u as usize])) {
                return None;
            }
            done(m)
        }
        SetPiTarget(n) => {
            let nn = get(n)?;
            if nn.k != K::Pi {
                return None;
            }
            node_mut(&mut m.forest, nn.id)?.name = "t2".to_string();
            done(m)
        }
        Parse(i) => {
            if *i as usize >= PARSE_TEXTS_WELL_FORMED {
                return None; // ill-formed text: the call has to be refused, there is nothing to predict
            }
            m.forest.push(parse_expect(*i));
            done(m)
        }
        ParseFragment(i) => {
            m.forest.push(fragment_expect(*i));
            done(m)
        }
        _ => None,
    }
}

/// structural comparison: model node ids of 0 match any id >= fresh_from; attribute/declaration order matters
pub fn matches(model: &A, real: &A, fresh_from: u32) -> bool {
    if model.k != real.k || model.ns != real.ns || model.name != real.name || model.val != real.val {
        return false;
    }
    if model.id == 0 {
        if real.id < fresh_from {
            return false;
        }
    } else if model.id != real.id {
        return false;
    }
    model.nss.len() == real.nss.len()
        && model.attrs.len() == real.attrs.len()
        && model.ch.len() == real.ch.len()
        && model.nss.iter().zip(real.nss.iter()).all(|(a, b)| matches(a, b, fresh_from))
        && model.attrs.iter().zip(real.attrs.iter()).all(|(a, b)| matches(a, b, fresh_from))
        && model.ch.iter().zip(real.ch.iter()).all(|(a, b)| matches(a, b, fresh_from))
}

/// match the forests as multisets of trees
pub fn forests_match(model: &[A], real: &[A], fresh_from: u32) -> bool {
    if model.len() != real.len() {
        return false;
    }
    let mut used = vec![false; real.len()];
    for m in model {
        let mut ok = false;
        for (i, r) in real.iter().enumerate() {
            if !used[i] && matches(m, r, fresh_from) {
                used[i] = true;
                ok = true;
                break;
            }
        }
        if !ok {
            return false;
        }
    }
    true
}

/// swap the identities of a lenient pair in a prediction
pub fn swap_lenient(p: &Prediction) -> Option<Prediction> {
    let (c, nb) = p.lenient_pair?;
    let mut q = p.clone();
    fn swap(a: &mut A, from: u32, to: u32) {
        if a.id == from {
            a.id = to;
        }
        for x in a.ch.iter_mut() {
            swap(x, from, to);
        }
    }
    for t in q.forest.iter_mut() {
        swap(t, nb, c);
    }
    for r in q.removed.iter_mut() {
        if *r == c {
            *r = nb;
        }
    }
    q.lenient_pair = None;
    Some(q)
}
