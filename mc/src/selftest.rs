//! Self-test of the reference models against each other - no xot involved.
//! * `XmlRead(XmlWrite(A)) == A` for every tree of the C01 / C20 structure sweeps and every namespace layout of 1-2
//!   elements: the default renderer, the namespace resolver and the strict reader agree.
//! * `XmlRead(Spell(A, deviations)) == A` for every spelling in the 2-deviation ball of every C02 document: the
//!   renderer-that-knows-the-answer (oracle of C02 / C17) and the strict reader (oracle of C03 / C10 / C11) are two
//!   independent implementations of "what does this text denote" and must agree everywhere.
//! * slicing each spelling with the renderer's span table yields text that decodes to the node's value.
//! A disagreement is a defect of the machinery: exit 2, never a verdict about xot.
use crate::atree::*;
use crate::common::*;
use crate::gen::*;
use crate::nsscope::*;
use crate::props::c01::norm;
use crate::props::c02;
use crate::spell::*;
use crate::xmlread::*;
use crate::xmlwrite::render_default;
use rayon::prelude::*;
use std::sync::atomic::{AtomicU64, Ordering};

fn same(exp: &A, text: &str, fragment: bool) -> Result<(), String> {
    let r = if fragment { read_fragment(text) } else { read_document(text) };
    match r {
        Read::WellFormed(mut got) => {
            let mut exp = exp.clone();
            if !fragment {
                got.ch.retain(|c| c.k != K::Text);
                exp.ch.retain(|c| c.k != K::Text);
            } else if exp.ch.iter().all(|c| c.k != K::Text) {
                // a document spelled for the fragment entry point: white space between top-level items is text there
                got.ch.retain(|c| !(c.k == K::Text && c.val.as_deref().unwrap_or("").chars().all(|ch| matches!(ch, ' ' | '\n' | '\r' | '\t'))));
            }
            match diff_class(&norm(&exp), &norm(&got)) {
                None => {
                    if exp.sorted_attrs().canon() != got.sorted_attrs().canon() {
                        Err(format!("declaration order: {:?} read as {} expected {}", text, got.show(), exp.show()))
                    } else {
                        Ok(())
                    }
                }
                Some(d) => Err(format!("{}: {:?} read as {} expected {}", d, text, got.show(), exp.show())),
            }
        }
        Read::IllFormed(why) => Err(format!("reader rejects ({}) the rendering {:?} of {}", why, text, exp.show())),
        Read::Unknown(why) => Err(format!("reader undecided ({}) on the rendering {:?} of {}", why, text, exp.show())),
    }
}

pub fn run(tier: Tier) -> i32 {
    let bad = std::sync::Mutex::new(Vec::<String>::new());
    let note = |e: String| {
        let mut b = bad.lock().unwrap();
        if b.len() < 10 {
            b.push(e);
        }
    };
    let n1 = AtomicU64::new(0);
    // 1. default renderer + reader on structure
    let al = TreeAlphabet {
        elements: vec![A::el("", "a"), A::el("", "b").attr("", "k", "v\t\"<&"), A::el(X, "a").decl("p", X).attr(X, "l", "1"), A::el(Y, "b").decl("", Y)],
        leaves: vec![A::text("t\r]]>&<"), A::comment("c"), A::pi("pi", None), A::pi("pi", Some("d"))],
        adjacent_text: false,
    };
    for k in 1..=tier.pick(4, 5) {
        let fs = forests(&al, k);
        fs.par_iter().for_each(|f| {
            let doc = A::doc(f.clone());
            if !serialisable(&doc, &base_scope()) {
                return;
            }
            if let Some(text) = render_default(&doc) {
                n1.fetch_add(1, Ordering::Relaxed);
                if let Err(e) = same(&doc, &text, true) {
                    note(format!("XmlRead(XmlWrite): {}", e));
                }
            }
        });
    }
    // 2. layouts of 1-2 elements
    let n2 = AtomicU64::new(0);
    let sp = SPEC_TOTAL;
    (0..sp + sp * sp).into_par_iter().for_each(|i| {
        let t = if i < sp { layout_tree(0, &[spec_from(i)]) } else { layout_tree(1, &[spec_from((i - sp) / sp), spec_from((i - sp) % sp)]) };
        let doc = A::doc(vec![t]);
        if !serialisable(&doc, &base_scope()) {
            return;
        }
        if let Some(text) = render_default(&doc) {
            n2.fetch_add(1, Ordering::Relaxed);
            if let Err(e) = same(&doc, &text, false) {
                note(format!("XmlRead(XmlWrite(layout)): {}", e));
            }
        }
    });
    // 3. the spelling ball
    let n3 = AtomicU64::new(0);
    let n4 = AtomicU64::new(0);
    for doc in c02::documents(tier) {
        let base = render(&doc, &[]);
        let b = ball(&base.points, 2);
        b.par_iter().for_each(|dev| {
            let r = render(&doc, dev);
            if r.entry == Entry::ParseFragment && r.has_prolog {
                return;
            }
            n3.fetch_add(1, Ordering::Relaxed);
            if let Err(e) = same(&doc, &r.text, r.entry == Entry::ParseFragment) {
                note(format!("XmlRead(Spell): {} [{}]", e, c02::dev_label(&r, dev)));
            }
            // the span table: every recorded range lies on character boundaries and, for names, comments and PIs,
            // is literally the item
            for s in &r.spans {
                n4.fetch_add(1, Ordering::Relaxed);
                if !(s.start <= s.end && s.end <= r.text.len() && r.text.is_char_boundary(s.start) && r.text.is_char_boundary(s.end)) {
                    note(format!("span table out of bounds: {:?} {:?}", r.text, s));
                    continue;
                }
                let slice = &r.text[s.start..s.end];
                let node = {
                    let mut n = &doc;
                    for i in &s.path {
                        n = &n.ch[*i];
                    }
                    n
                };
                let ok = match &s.what {
                    SpanWhat::Comment | SpanWhat::PiContent => Some(slice) == node.val.as_deref(),
                    SpanWhat::PiTarget => slice == node.name,
                    SpanWhat::ElementStart => slice.rsplit(':').next() == Some(node.name.as_str()),
                    SpanWhat::AttributeName(_, l) => slice.rsplit(':').next() == Some(l.as_str()),
                    SpanWhat::ElementEnd => slice == "/>" || (slice.starts_with("</") && slice.ends_with('>')),
                    SpanWhat::Text | SpanWhat::AttributeValue(..) => true,
                };
                if !ok {
                    note(format!("span table: {:?} slice {:?} is not the {:?} of {}", r.text, slice, s.what, node.show()));
                }
            }
        });
    }
    // 4. MForest: every prediction from every start forest x every operation is itself a well-formed forest: node ids
    //    unique, removed ids absent, and (consolidation on, no pre-existing run) no two adjacent text nodes
    let n5 = AtomicU64::new(0);
    {
        use crate::histcommon::*;
        use crate::mforest::predict;
        let mut starts = starts();
        starts.extend(tiny_starts());
        for st in &starts {
            let Some((w, f)) = crate::bfs::replay_world(st, &[]) else {
                note(format!("start {} cannot be built", st.name));
                continue;
            };
            for op in all_ops(&f, OpMenu::full()) {
                let Some(p) = predict(&w, &f, &op) else { continue };
                let mut all = vec![p.clone()];
                all.extend(p.alternatives.iter().cloned());
                for q in all {
                    n5.fetch_add(1, Ordering::Relaxed);
                    let mut ids = vec![];
                    fn walk(a: &A, ids: &mut Vec<u32>, adj: &mut bool) {
                        if a.id != 0 {
                            ids.push(a.id);
                        }
                        for x in a.nss.iter().chain(a.attrs.iter()) {
                            if x.id != 0 {
                                ids.push(x.id);
                            }
                        }
                        if a.ch.windows(2).any(|w| w[0].k == K::Text && w[1].k == K::Text) {
                            *adj = true;
                        }
                        for c in &a.ch {
                            walk(c, ids, adj);
                        }
                    }
                    let mut adj = false;
                    for t in &q.forest {
                        walk(t, &mut ids, &mut adj);
                    }
                    let n = ids.len();
                    ids.sort();
                    ids.dedup();
                    if ids.len() != n {
                        note(format!("MForest: duplicate node id after {:?} on start {}", op, st.name));
                    }
                    if q.removed.iter().any(|r| ids.contains(r)) {
                        note(format!("MForest: removed id still in the forest after {:?} on start {}", op, st.name));
                    }
                    if adj && w.consolidation && !st.is_mixed() && !st.adjacent_text {
                        note(format!("MForest: adjacent text predicted under consolidation after {:?} on start {}", op, st.name));
                    }
                }
            }
        }
    }
    let b = bad.lock().unwrap();
    println!("selftest: MForest predictions checked = {}", n5.load(Ordering::Relaxed));
    println!(
        "selftest {:?}: XmlRead(XmlWrite(tree))={} XmlRead(XmlWrite(layout))={} XmlRead(Spell(doc,dev))={} span-table-entries={} disagreements={}",
        tier,
        n1.load(Ordering::Relaxed),
        n2.load(Ordering::Relaxed),
        n3.load(Ordering::Relaxed),
        n4.load(Ordering::Relaxed),
        b.len()
    );
    if b.is_empty() && n1.load(Ordering::Relaxed) > 0 && n2.load(Ordering::Relaxed) > 0 && n3.load(Ordering::Relaxed) > 0 {
        0
    } else {
        for e in b.iter() {
            eprintln!("MACHINERY: oracle self-test: {}", e);
        }
        2
    }
}
