//! Structural invariants I1..I6 of C04, computed through public navigation only (DESIGN appendix B).
use crate::atree::*;
use crate::world::*;
use std::collections::BTreeSet;
use xot::{Node, NodeEdge};

pub struct InvFail {
    pub clause: String,
    pub detail: String,
}

fn f(out: &mut Vec<InvFail>, clause: &str, detail: String) {
    out.push(InvFail { clause: clause.to_string(), detail });
}

pub fn check_invariants(w: &World, forest: &[A], out: &mut Vec<InvFail>) {
    let xot = &w.xot;
    let mut reached: BTreeSet<u32> = BTreeSet::new();
    for t in forest {
        let r = w.node(t.id as usize - 1);
        if xot.next_sibling(r).is_some() || xot.previous_sibling(r).is_some() {
            f(out, "I1-root-has-siblings", format!("root #{} ({}) of {} has a sibling", t.id, t.k.name(), t.show()));
        }
        // siblings of any category
        for e in [NodeEdge::Start(r), NodeEdge::End(r)] {
            let _ = e;
        }
        check_node(w, t, None, out, &mut reached);
    }
    // every live handle is reachable downward from its root
    for h in w.live() {
        if !reached.contains(&(h as u32 + 1)) {
            f(out, "I1-live-handle-unreachable", format!("handle #{} ({}) is live but not found by walking down from its root", h + 1, w.kinds[h].name()));
        }
    }
    // xml:id index never hands out a removed node
    for t in forest {
        if t.k == K::Doc {
            let d = w.node(t.id as usize - 1);
            for id in ["i", "j"] {
                if let Some(n) = xot.xml_id_node(d, id) {
                    let dead = w.tab.get(n).map(|h| w.dead[h]).unwrap_or(false);
                    if dead || xot.is_removed(n) {
                        f(out, "I6-xml_id_node-returns-removed", format!("xml_id_node(document #{}, {:?}) returns a removed node", t.id, id));
                    }
                }
            }
        }
    }
}

fn check_node(w: &World, a: &A, parent: Option<&A>, out: &mut Vec<InvFail>, reached: &mut BTreeSet<u32>) {
    let xot = &w.xot;
    let n: Node = w.node(a.id as usize - 1);
    if !reached.insert(a.id) {
        f(out, "I1-node-reached-twice", format!("node #{} occurs twice in the downward walk", a.id));
        return;
    }
    if w.dead[a.id as usize - 1] {
        f(out, "I6-accessor-returns-removed", format!("navigation reaches node #{} which was observed removed", a.id));
    }
    if w.kinds[a.id as usize - 1] != a.k {
        f(out, "I6-kind-changed", format!("handle #{} was {} and is now {}", a.id, w.kinds[a.id as usize - 1].name(), a.k.name()));
    }
    // parent link
    let p = xot.parent(n);
    let exp_p = parent.map(|p| w.node(p.id as usize - 1));
    if p != exp_p {
        f(out, "I1-parent-mismatch", format!("parent(#{}) disagrees with the child list it was found in", a.id));
    }
    if a.k == K::Doc && parent.is_some() {
        f(out, "I4-document-not-root", format!("document node #{} has a parent", a.id));
    }
    // raw order of everything below n: Start edges whose parent is n
    let raw: Vec<Node> = xot
        .all_traverse(n)
        .take(20_000)
        .filter_map(|e| match e {
            NodeEdge::Start(c) if c != n && xot.parent(c) == Some(n) => Some(c),
            _ => None,
        })
        .collect();
    let listed: Vec<Node> = a.nss.iter().chain(a.attrs.iter()).chain(a.ch.iter()).map(|c| w.node(c.id as usize - 1)).collect();
    if matches!(a.k, K::Doc | K::Elem) {
        if raw != listed {
            // classify
            let cats: Vec<u8> = raw
                .iter()
                .map(|c| match kind_of(xot, *c) {
                    K::Ns => 0,
                    K::Attr => 1,
                    _ => 2,
                })
                .collect();
            if cats.windows(2).any(|w| w[0] > w[1]) {
                f(out, "I2-order", format!("children of #{} are not namespaces, attributes, ordinary: categories {:?}", a.id, cats));
            } else {
                f(out, "I1-child-lists-disagree", format!("all_traverse children of #{} differ from namespaces()+attributes()+children()", a.id));
            }
        }
        if a.k == K::Doc && raw.iter().any(|c| !kind_of(xot, *c).normal()) {
            f(out, "I4-attribute-or-namespace-under-document", format!("document #{} has an attribute / namespace node below it", a.id));
        }
    } else if !raw.is_empty() {
        f(out, "I4-leaf-has-children", format!("{} node #{} has child nodes", a.k.name(), a.id));
    }
    // unique keys
    let mut keys = BTreeSet::new();
    for at in &a.attrs {
        if !keys.insert((at.ns.clone(), at.name.clone())) {
            f(out, "I3-duplicate-attribute", format!("element #{} has two attributes {{{}}}{}", a.id, at.ns, at.name));
        }
    }
    let mut pk = BTreeSet::new();
    for d in &a.nss {
        if !pk.insert(d.name.clone()) {
            f(out, "I3-duplicate-prefix", format!("element #{} declares prefix {:?} twice", a.id, d.name));
        }
    }
    // sibling links among ordinary children
    let kids: Vec<Node> = a.ch.iter().map(|c| w.node(c.id as usize - 1)).collect();
    if xot.first_child(n) != kids.first().copied() {
        f(out, "I1-first_child", format!("first_child(#{}) is not the first of children()", a.id));
    }
    if xot.last_child(n) != kids.last().copied() {
        f(out, "I1-last_child", format!("last_child(#{}) is not the last of children()", a.id));
    }
    for (i, k) in kids.iter().enumerate() {
        if xot.next_sibling(*k) != kids.get(i + 1).copied() {
            f(out, "I1-next_sibling", format!("next_sibling of child {} of #{} disagrees with children()", i, a.id));
        }
        let prev = if i > 0 { Some(kids[i - 1]) } else { None };
        if xot.previous_sibling(*k) != prev {
            f(out, "I1-previous_sibling", format!("previous_sibling of child {} of #{} disagrees with children()", i, a.id));
        }
    }
    // no adjacent text while consolidation has never been off
    if !w.ever_off && a.ch.windows(2).any(|p| p[0].k == K::Text && p[1].k == K::Text) {
        f(out, "I5-adjacent-text", format!("two adjacent text nodes under #{}: {}", a.id, a.show()));
    }
    for d in a.nss.iter().chain(a.attrs.iter()) {
        if !reached.insert(d.id) {
            f(out, "I1-node-reached-twice", format!("node #{} occurs twice", d.id));
        }
        if w.dead[d.id as usize - 1] {
            f(out, "I6-accessor-returns-removed", format!("map view of #{} lists removed node #{}", a.id, d.id));
        }
        if w.kinds[d.id as usize - 1] != d.k {
            f(out, "I6-kind-changed", format!("handle #{} changed kind", d.id));
        }
        if xot.parent(w.node(d.id as usize - 1)) != Some(n) {
            f(out, "I1-parent-mismatch", format!("parent of {} node #{} is not the element listing it", d.k.name(), d.id));
        }
    }
    for c in &a.ch {
        check_node(w, c, Some(a), out, reached);
    }
}
