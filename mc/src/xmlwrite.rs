//! `XmlWrite` — renderer from abstract trees to XML text, written independently of xot.
//! `render_default` produces the default spelling (used where the spelling does not matter).
use crate::atree::*;
use crate::nsscope::*;

pub fn esc_text(s: &str, out: &mut String) {
    for c in s.chars() {
        match c {
            '<' => out.push_str("&lt;"),
            '&' => out.push_str("&amp;"),
            '>' => out.push_str("&gt;"),
            '\r' => out.push_str("&#13;"),
            c => out.push(c),
        }
    }
}
pub fn esc_attr(s: &str, out: &mut String) {
    for c in s.chars() {
        match c {
            '<' => out.push_str("&lt;"),
            '&' => out.push_str("&amp;"),
            '"' => out.push_str("&quot;"),
            '\t' => out.push_str("&#9;"),
            '\n' => out.push_str("&#10;"),
            '\r' => out.push_str("&#13;"),
            c => out.push(c),
        }
    }
}

/// pick a prefix for an element name (default binding preferred) or attribute name (non-empty only)
pub fn pick_prefix(scope: &Scope, ns: &str, is_attr: bool) -> Option<String> {
    if ns.is_empty() {
        if is_attr || !scope.contains_key("") {
            return Some(String::new());
        }
        return None;
    }
    if !is_attr {
        if scope.get("").map(|u| u == ns).unwrap_or(false) {
            return Some(String::new());
        }
    }
    scope.iter().find(|(p, u)| !p.is_empty() && *u == ns).map(|(p, _)| p.clone())
}

fn qname(prefix: &str, local: &str) -> String {
    if prefix.is_empty() {
        local.to_string()
    } else {
        format!("{}:{}", prefix, local)
    }
}

/// Default rendering. Returns None when some name cannot be expressed with the declarations in scope.
pub fn render_default(a: &A) -> Option<String> {
    let mut s = String::new();
    if render_into(a, &base_scope(), &mut s) {
        Some(s)
    } else {
        None
    }
}

fn render_into(a: &A, outer: &Scope, s: &mut String) -> bool {
    match a.k {
        K::Doc => {
            for c in &a.ch {
                if !render_into(c, outer, s) {
                    return false;
                }
            }
            true
        }
        K::Elem => {
            let scope = enter(outer, a);
            let Some(p) = pick_prefix(&scope, &a.ns, false) else { return false };
            let q = qname(&p, &a.name);
            s.push('<');
            s.push_str(&q);
            for d in &a.nss {
                if d.name.is_empty() {
                    s.push_str(" xmlns=\"");
                } else {
                    s.push_str(&format!(" xmlns:{}=\"", d.name));
                }
                esc_attr(&d.ns, s);
                s.push('"');
            }
            for at in &a.attrs {
                let Some(p) = pick_prefix(&scope, &at.ns, true) else { return false };
                s.push(' ');
                s.push_str(&qname(&p, &at.name));
                s.push_str("=\"");
                esc_attr(at.val.as_deref().unwrap_or(""), s);
                s.push('"');
            }
            if a.ch.is_empty() {
                s.push_str("/>");
            } else {
                s.push('>');
                for c in &a.ch {
                    if !render_into(c, &scope, s) {
                        return false;
                    }
                }
                s.push_str("</");
                s.push_str(&q);
                s.push('>');
            }
            true
        }
        K::Text => {
            esc_text(a.val.as_deref().unwrap_or(""), s);
            true
        }
        K::Comment => {
            s.push_str("<!--");
            s.push_str(a.val.as_deref().unwrap_or(""));
            s.push_str("-->");
            true
        }
        K::Pi => {
            s.push_str("<?");
            s.push_str(&a.name);
            if let Some(d) = &a.val {
                s.push(' ');
                s.push_str(d);
            }
            s.push_str("?>");
            true
        }
        _ => false,
    }
}
