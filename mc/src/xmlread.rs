//! `XmlRead` — a small, strict XML 1.0 + Namespaces reader written independently of xot.
//! (a) resolves the names in xot's *output* (C10, C11, C19 foreign parts),
//! (b) three-valued reference recogniser for C03: WellFormed | IllFormed(reason) | Unknown.
//! Only IllFormed(reason) ever creates an obligation, so over-caution cannot cause a false alarm.
use crate::atree::*;
use crate::nsscope::*;

#[derive(Debug, Clone, PartialEq)]
pub enum Read {
    WellFormed(A),
    IllFormed(&'static str),
    Unknown(String),
}

struct P<'a> {
    s: &'a [u8],
    t: &'a str,
    i: usize,
    ids: Vec<String>,
}

enum E {
    Ill(&'static str),
    Unk(String),
}
type R<T> = Result<T, E>;

fn is_name_start(c: char) -> bool {
    c.is_ascii_alphabetic() || c == '_' || c == ':' || (c as u32) >= 0x80
}
fn is_name_char(c: char) -> bool {
    is_name_start(c) || c.is_ascii_digit() || c == '-' || c == '.'
}
pub fn is_xml_char(c: u32) -> bool {
    matches!(c, 0x9 | 0xA | 0xD | 0x20..=0xD7FF | 0xE000..=0xFFFD | 0x10000..=0x10FFFF)
}
fn is_ws(c: char) -> bool {
    matches!(c, ' ' | '\t' | '\r' | '\n')
}

impl<'a> P<'a> {
    fn peek(&self) -> Option<char> {
        self.t[self.i..].chars().next()
    }
    fn starts(&self, p: &str) -> bool {
        self.s[self.i..].starts_with(p.as_bytes())
    }
    fn eat(&mut self, p: &str) -> bool {
        if self.starts(p) {
            self.i += p.len();
            true
        } else {
            false
        }
    }
    fn bump(&mut self) -> Option<char> {
        let c = self.peek()?;
        self.i += c.len_utf8();
        Some(c)
    }
    fn ws(&mut self) -> bool {
        let st = self.i;
        while let Some(c) = self.peek() {
            if is_ws(c) {
                self.i += 1;
            } else {
                break;
            }
        }
        self.i > st
    }
    fn name(&mut self) -> R<String> {
        let st = self.i;
        match self.peek() {
            Some(c) if is_name_start(c) => {
                self.bump();
            }
            _ => return Err(E::Unk(format!("name expected at {}", self.i))),
        }
        while let Some(c) = self.peek() {
            if is_name_char(c) {
                self.bump();
            } else {
                break;
            }
        }
        Ok(self.t[st..self.i].to_string())
    }

    /// reference after '&' has been consumed
    fn reference(&mut self, out: &mut String) -> R<()> {
        let rest = &self.t[self.i..];
        let Some(semi) = rest.find(';') else { return Err(E::Ill("raw-amp")) };
        let body = &rest[..semi];
        // a reference body has no white space or markup characters; else it is a raw ampersand
        if body.is_empty() || body.chars().any(|c| is_ws(c) || c == '<' || c == '&' || c == '"' || c == '\'') {
            return Err(E::Ill("raw-amp"));
        }
        self.i += semi + 1;
        if let Some(num) = body.strip_prefix('#') {
            let (digits, radix) = match num.strip_prefix('x') {
                Some(h) => (h, 16),
                None => (num, 10),
            };
            if digits.is_empty() || !digits.chars().all(|c| c.is_digit(radix)) {
                return Err(E::Ill("bad-ref"));
            }
            let code = u32::from_str_radix(digits, radix).unwrap_or(u32::MAX);
            if !is_xml_char(code) {
                return Err(E::Ill("ref-nonchar"));
            }
            out.push(char::from_u32(code).unwrap());
            return Ok(());
        }
        match body {
            "amp" => out.push('&'),
            "lt" => out.push('<'),
            "gt" => out.push('>'),
            "quot" => out.push('"'),
            "apos" => out.push('\''),
            _ => {
                if body.chars().all(is_name_char) && body.chars().next().map(is_name_start).unwrap_or(false) {
                    return Err(E::Ill("bad-ref")); // undeclared entity (no DTD is ever accepted)
                }
                return Err(E::Ill("raw-amp"));
            }
        }
        Ok(())
    }

    fn attr_value(&mut self) -> R<String> {
        let q = match self.bump() {
            Some(c @ ('"' | '\'')) => c,
            _ => return Err(E::Unk("attribute value quote".into())),
        };
        let mut out = String::new();
        loop {
            match self.bump() {
                None => return Err(E::Unk("unterminated attribute value".into())),
                Some(c) if c == q => break,
                Some('<') => return Err(E::Ill("raw-lt")),
                Some('&') => self.reference(&mut out)?,
                Some('\r') => {
                    if self.peek() == Some('\n') {
                        self.bump();
                    }
                    out.push(' ');
                }
                Some('\t') | Some('\n') => out.push(' '),
                Some(c) => {
                    if !is_xml_char(c as u32) {
                        return Err(E::Unk("non-char".into()));
                    }
                    out.push(c)
                }
            }
        }
        Ok(out)
    }

    fn comment(&mut self) -> R<A> {
        // after "<!--"
        let rest = &self.t[self.i..];
        let Some(end) = rest.find("--") else { return Err(E::Ill("comment-bad")) };
        let body = &rest[..end];
        if !rest[end..].starts_with("-->") {
            return Err(E::Ill("comment-bad"));
        }
        self.i += end + 3;
        Ok(A::comment(body))
    }

    fn pi(&mut self) -> R<A> {
        // after "<?"
        let target = self.name()?;
        if target.contains(':') {
            return Err(E::Unk("colon in PI target".into()));
        }
        if target.eq_ignore_ascii_case("xml") {
            return Err(E::Ill("pi-reserved"));
        }
        if self.eat("?>") {
            return Ok(A::pi(&target, None));
        }
        if !self.ws() {
            // no white space between target and data
            let rest = &self.t[self.i..];
            return Err(if rest.contains("?>") { E::Ill("pi-bad") } else { E::Ill("pi-bad") });
        }
        let rest = &self.t[self.i..];
        let Some(end) = rest.find("?>") else { return Err(E::Ill("pi-bad")) };
        let data = &rest[..end];
        self.i += end + 2;
        Ok(A::pi(&target, if data.is_empty() { None } else { Some(data) }))
    }

    /// element after '<' when a name start follows
    fn element(&mut self, outer: &Scope, depth: usize) -> R<A> {
        if depth > 200 {
            return Err(E::Unk("too deep".into()));
        }
        let qn = self.name()?;
        let mut raw_attrs: Vec<(String, String)> = vec![];
        let empty;
        loop {
            let had_ws = self.ws();
            if self.eat("/>") {
                empty = true;
                break;
            }
            if self.eat(">") {
                empty = false;
                break;
            }
            if self.i >= self.s.len() {
                return Err(E::Ill("tag-unclosed"));
            }
            if !had_ws {
                return Err(E::Unk("missing white space between attributes".into()));
            }
            let an = self.name()?;
            self.ws();
            if !self.eat("=") {
                return Err(E::Unk("= expected".into()));
            }
            self.ws();
            let v = self.attr_value()?;
            if raw_attrs.iter().any(|(n, _)| *n == an) {
                return Err(if an == "xmlns" || an.starts_with("xmlns:") { E::Ill("dup-prefix-decl") } else { E::Ill("dup-attr") });
            }
            raw_attrs.push((an, v));
        }
        // declarations
        let split = |q: &str| -> R<(String, String)> {
            match q.split_once(':') {
                None => Ok((String::new(), q.to_string())),
                Some((p, l)) => {
                    if p.is_empty() || l.is_empty() || l.contains(':') {
                        Err(E::Unk("odd qname".into()))
                    } else {
                        Ok((p.to_string(), l.to_string()))
                    }
                }
            }
        };
        let mut e = A::el("", "");
        for (n, v) in &raw_attrs {
            if (n == "xmlns" || n.starts_with("xmlns:")) && v == "http://www.w3.org/2000/xmlns/" {
                return Err(E::Unk("reserved namespace declared".into()));
            }
            if n == "xmlns" {
                e.nss.push(A::ns_node("", v));
            } else if let Some(p) = n.strip_prefix("xmlns:") {
                // xmlns:xml="..." is read as an ordinary (re)binding: Namespaces in XML forbids binding xml to another
                // namespace, but xot's pinned suite requires the parser to honour it, so the reference reader follows
                // plain scoping here; xmlns:xmlns and xmlns:p="" carry no expectation
                if p == "xmlns" || v.is_empty() {
                    return Err(E::Unk("reserved prefix declaration".into()));
                }
                e.nss.push(A::ns_node(p, v));
            }
        }
        let scope = enter(outer, &e);
        // ":a" is a Name, not a QName: no verdict on the element as such, but its tags still have to match as written
        let colon_name = qn.len() > 1 && qn.starts_with(':') && !qn[1..].contains(':');
        let (ep, el) = if colon_name { (String::new(), qn[1..].to_string()) } else { split(&qn)? };
        if ep == "xmlns" {
            return Err(E::Unk("xmlns prefix on element".into()));
        }
        match resolve(&scope, &ep, false) {
            Some(ns) => {
                e.ns = ns;
                e.name = el;
            }
            None => return Err(E::Ill("undeclared-prefix")),
        }
        for (n, v) in &raw_attrs {
            if n == "xmlns" || n.starts_with("xmlns:") {
                continue;
            }
            let (ap, al) = split(n)?;
            let Some(ns) = resolve(&scope, &ap, true) else { return Err(E::Ill("undeclared-prefix")) };
            if e.attrs.iter().any(|x| x.ns == ns && x.name == al) {
                return Err(E::Ill("dup-attr"));
            }
            let mut val = v.clone();
            if ns == XML_NS && al == "id" {
                val = val.split(' ').filter(|s| !s.is_empty()).collect::<Vec<_>>().join(" ");
                if self.ids.contains(&val) {
                    return Err(E::Ill("dup-xml-id"));
                }
                self.ids.push(val.clone());
            }
            e.attrs.push(A::attr_node(&ns, &al, &val));
        }
        if !empty {
            self.content(&mut e, &scope, depth, Some(&qn))?;
        }
        if colon_name {
            return Err(E::Unk("odd qname".into()));
        }
        Ok(e)
    }

    /// content until the matching end tag (or end of input for a fragment / document level)
    fn content(&mut self, parent: &mut A, scope: &Scope, depth: usize, open: Option<&str>) -> R<()> {
        let mut text = String::new();
        let flush = |text: &mut String, parent: &mut A| {
            if !text.is_empty() {
                parent.ch.push(A::text(text));
                text.clear();
            }
        };
        loop {
            if self.i >= self.s.len() {
                flush(&mut text, parent);
                return if open.is_some() { Err(E::Ill("tag-unclosed")) } else { Ok(()) };
            }
            if self.eat("</") {
                flush(&mut text, parent);
                let n = self.name()?;
                self.ws();
                if !self.eat(">") {
                    return Err(E::Unk("end tag".into()));
                }
                return match open {
                    None => Err(E::Ill("tag-stray")),
                    Some(o) if o == n => Ok(()),
                    Some(_) => Err(E::Ill("tag-mismatch")),
                };
            }
            if self.eat("<!--") {
                flush(&mut text, parent);
                let c = self.comment()?;
                parent.ch.push(c);
                continue;
            }
            if self.eat("<![CDATA[") {
                let rest = &self.t[self.i..];
                let Some(end) = rest.find("]]>") else { return Err(E::Ill("cdata-bad")) };
                let body = rest[..end].replace("\r\n", "\n").replace('\r', "\n");
                text.push_str(&body);
                self.i += end + 3;
                continue;
            }
            if self.starts("<!DOCTYPE") {
                return Err(E::Ill("dtd"));
            }
            if self.eat("<?") {
                flush(&mut text, parent);
                let p = self.pi()?;
                parent.ch.push(p);
                continue;
            }
            if self.starts("<") {
                let next = self.t[self.i + 1..].chars().next();
                if next.map(is_name_start).unwrap_or(false) {
                    flush(&mut text, parent);
                    self.i += 1;
                    let e = self.element(scope, depth + 1)?;
                    parent.ch.push(e);
                    continue;
                }
                return Err(E::Ill("raw-lt-in-content"));
            }
            // character data
            match self.bump() {
                Some('&') => self.reference(&mut text)?,
                Some('\r') => {
                    if self.peek() == Some('\n') {
                        self.bump();
                    }
                    text.push('\n');
                }
                Some(']') if self.starts("]>") => return Err(E::Ill("cdata-bad")),
                Some(c) => {
                    if !is_xml_char(c as u32) {
                        return Err(E::Unk("non-char".into()));
                    }
                    text.push(c)
                }
                None => unreachable!(),
            }
        }
    }

    fn xml_decl(&mut self) -> R<()> {
        if self.starts("<?xml") && self.t[self.i + 5..].chars().next().map(is_ws).unwrap_or(false) {
            let rest = &self.t[self.i..];
            let Some(end) = rest.find("?>") else { return Err(E::Unk("declaration".into())) };
            let decl = &rest[..end];
            // version value
            if let Some(vp) = decl.find("version") {
                let after = decl[vp + 7..].trim_start();
                if let Some(a) = after.strip_prefix('=') {
                    let a = a.trim_start();
                    let q = a.chars().next();
                    if let Some(q @ ('"' | '\'')) = q {
                        if let Some(e) = a[1..].find(q) {
                            let v = &a[1..1 + e];
                            if v != "1.0" {
                                if v.starts_with("1.") && v.len() > 2 && v[2..].chars().all(|c| c.is_ascii_digit()) {
                                    self.i += end + 2;
                                    return Err(E::Ill("version"));
                                }
                                return Err(E::Unk("odd version".into()));
                            }
                            self.i += end + 2;
                            return Ok(());
                        }
                    }
                }
            }
            return Err(E::Unk("declaration without version".into()));
        }
        Ok(())
    }
}

fn finish(r: R<A>) -> Read {
    match r {
        Ok(a) => Read::WellFormed(a),
        Err(E::Ill(r)) => Read::IllFormed(r),
        Err(E::Unk(s)) => Read::Unknown(s),
    }
}

pub fn read_document(text: &str) -> Read {
    let t = text.strip_prefix('\u{feff}').unwrap_or(text);
    let mut p = P { s: t.as_bytes(), t, i: 0, ids: vec![] };
    finish((|| {
        p.xml_decl()?;
        let mut doc = A::doc(vec![]);
        let scope = base_scope();
        p.content(&mut doc, &scope, 0, None)?;
        // document-level constraints
        let elems = doc.ch.iter().filter(|c| c.k == K::Elem).count();
        let text_nodes: Vec<&A> = doc.ch.iter().filter(|c| c.k == K::Text).collect();
        if text_nodes.iter().any(|t| !t.val.as_deref().unwrap_or("").chars().all(is_ws)) {
            return Err(E::Ill("toplevel-text"));
        }
        if elems == 0 {
            return Err(E::Ill("no-root"));
        }
        if elems > 1 {
            return Err(E::Ill("multi-root"));
        }
        doc.ch.retain(|c| c.k != K::Text);
        Ok(doc)
    })())
}

pub fn read_fragment(text: &str) -> Read {
    let mut p = P { s: text.as_bytes(), t: text, i: 0, ids: vec![] };
    finish((|| {
        let mut doc = A::doc(vec![]);
        let scope = base_scope();
        p.content(&mut doc, &scope, 0, None)?;
        Ok(doc)
    })())
}

#[cfg(test)]
mod tests {
    use super::*;
    #[test]
    fn basics() {
        assert!(matches!(read_document("<a/>"), Read::WellFormed(_)));
        assert_eq!(read_document("<a></b>"), Read::IllFormed("tag-mismatch"));
        assert_eq!(read_document("<a>"), Read::IllFormed("tag-unclosed"));
        assert_eq!(read_document("</a>"), Read::IllFormed("tag-stray"));
        assert_eq!(read_document("<a/><b/>"), Read::IllFormed("multi-root"));
        assert_eq!(read_document("x<a/>"), Read::IllFormed("toplevel-text"));
        assert_eq!(read_document("<a k='1' k='2'/>"), Read::IllFormed("dup-attr"));
        assert_eq!(read_document("<a xmlns:p='X' xmlns:q='X' p:k='1' q:k='2'/>"), Read::IllFormed("dup-attr"));
        assert_eq!(read_document("<p:a/>"), Read::IllFormed("undeclared-prefix"));
        assert_eq!(read_document("<a>&#0;</a>"), Read::IllFormed("ref-nonchar"));
        assert_eq!(read_document("<a>&#+65;</a>"), Read::IllFormed("bad-ref"));
        assert_eq!(read_document("<a>&</a>"), Read::IllFormed("raw-amp"));
        assert_eq!(read_document("<!DOCTYPE a><a/>"), Read::IllFormed("dtd"));
        assert_eq!(read_document("<?xml version='1.1'?><a/>"), Read::IllFormed("version"));
        let Read::WellFormed(d) = read_document("<p:a xmlns:p='urn:x' k=\"1&amp;\">t<![CDATA[u]]></p:a>") else { panic!() };
        assert_eq!(d.ch[0].ns, "urn:x");
        assert_eq!(d.ch[0].attrs[0].val.as_deref(), Some("1&"));
        assert_eq!(d.ch[0].ch[0].val.as_deref(), Some("tu"));
    }
}
