//! Start forests and operation enumeration shared by the history properties C04 / C05 / C06 / C12.
use crate::atree::*;
use crate::bfs::Start;
use crate::nsscope::{X, Y};
use crate::world::*;

/// Colliding start forests (DESIGN §2.6): text-element-text sandwiches, attribute and namespace nodes,
/// nested elements (cycles), a second tree, unattached nodes of every kind.
pub fn starts() -> Vec<Start> {
    let s = |name: &str, forest: Vec<A>| Start { name: name.into(), forest, adjacent_text: false, consolidation: true , parse: vec![]};
    vec![
        s(
            "sandwich+attrs",
            vec![A::doc(vec![A::el("", "a").child(A::text("x")).child(A::el("", "b").decl("p", X).attr("", "k", "1").child(A::text("y"))).child(A::text("z"))]), A::text("u")],
        ),
        s("comment-pi-nested+element", vec![A::doc(vec![A::comment("c"), A::el("", "a").child(A::el("", "b")).child(A::pi("pi", Some("d"))).child(A::el("", "c").child(A::el("", "d")))]), A::el(Y, "e").decl("", Y).child(A::text("t"))]),
        s("unattached-element+attr+ns", vec![A::el("", "a").attr("", "k", "1").child(A::text("x")).child(A::el("", "b")).child(A::text("y")), A::attr_node("", "k", "2"), A::ns_node("p", Y), A::attr_node(X, "l", "3")]),
        s("two-documents", vec![A::doc(vec![A::el("", "a").child(A::el("", "b"))]), A::doc(vec![A::el("", "c").attr(X, "l", "1").decl("p", X).child(A::text("t"))])]),
        s("fragment-text-first-last", vec![A::doc(vec![A::text("x"), A::el("", "a"), A::text("y")]), A::comment("c"), A::pi("pi", None)]),
        Start { name: "parsed-with-xml-ids".into(), forest: vec![A::el("", "e").child(A::text("t"))], adjacent_text: false, consolidation: true, parse: vec![1] },
        Start {
            name: "adjacent-text-run (built with consolidation off, now on)".into(),
            forest: vec![A::doc(vec![A::el("", "a").child(A::text("a")).child(A::text("b")).child(A::text("c")).child(A::el("", "e")).child(A::text("d"))]), A::text("u")],
            adjacent_text: true,
            consolidation: true,
            parse: vec![],
        },
        s("single-text-child", vec![A::doc(vec![A::el("", "a").child(A::text("x")).child(A::el("", "b").child(A::text("y")))]), A::el("", "e"), A::text(" ")]),
    ]
}

/// tiny forests explored one level deeper than the others
pub fn tiny_starts() -> Vec<Start> {
    let s = |name: &str, forest: Vec<A>| Start { name: name.into(), forest, adjacent_text: false, consolidation: true, parse: vec![] };
    vec![
        s("tiny-sandwich", vec![A::doc(vec![A::el("", "a").child(A::text("x")).child(A::el("", "b")).child(A::text("y"))]), A::text("u")]),
        s("tiny-attr", vec![A::el("", "a").attr("", "k", "1").child(A::el("", "b").child(A::text("x"))), A::comment("c")]),
    ]
}

pub fn small_starts() -> Vec<Start> {
    let all = starts();
    vec![all[0].clone(), all[2].clone(), all[4].clone(), all[5].clone()]
}

#[derive(Clone, Copy)]
pub struct OpMenu {
    pub creation: bool,
    pub parse: bool,
    pub consolidation_switch: bool,
    pub helpers: bool,
}

impl OpMenu {
    pub fn full() -> OpMenu {
        OpMenu { creation: true, parse: true, consolidation_switch: true, helpers: true }
    }
}

/// Every operation of the alphabet with every argument tuple of live handles (in canonical order).
pub fn all_ops(forest: &[A], menu: OpMenu) -> Vec<Op> {
    use Op::*;
    let hs = canonical_handles(forest);
    let mut ops = vec![];
    for &a in &hs {
        for &b in &hs {
            ops.push(Append(a, b));
            ops.push(Prepend(a, b));
            ops.push(InsertAfter(a, b));
            ops.push(InsertBefore(a, b));
            ops.push(Replace(a, b));
            ops.push(AnyAppend(a, b));
            ops.push(AppendAttrNode(a, b));
            ops.push(AppendNsNode(a, b));
        }
    }
    for &a in &hs {
        ops.push(Detach(a));
        ops.push(Remove(a));
        ops.push(Unwrap(a));
        ops.push(Wrap(a));
        ops.push(CloneNode(a));
        ops.push(CloneWithPrefixes(a));
        ops.push(AppendText(a, "s".into()));
        ops.push(AppendElement(a));
        ops.push(AppendComment(a));
        ops.push(SetAttr(a, 0, "w".into()));
        ops.push(SetAttr(a, 1, "w".into()));
        ops.push(SetAttr(a, 2, "".into()));
        ops.push(RemoveAttr(a, 0));
        ops.push(SetNs(a, 1, 1));
        ops.push(SetNs(a, 0, 0));
        ops.push(RemoveNs(a, 1));
        ops.push(AttrsClear(a));
        ops.push(NssClear(a));
        ops.push(SetElementName(a));
        ops.push(SetText(a, "s".into()));
        ops.push(SetText(a, "".into()));
        ops.push(SetComment(a, "x".into()));
        ops.push(SetComment(a, "--".into()));
        ops.push(SetPiData(a, None));
        ops.push(SetPiData(a, Some("e".into())));
        ops.push(TextContentMut(a, "s".into()));
        ops.push(SetAttrValue(a, "s".into()));
        ops.push(AppendPi(a));
        ops.push(AppendNamespace(a, 1, 1));
        ops.push(AppendNamespace(a, 0, 0));
        ops.push(NewDocumentWithElement(a));
        ops.push(ElementMutSetName(a));
        ops.push(NsNodeSetNamespace(a, 1));
        ops.push(SetPiTarget(a));
        if menu.helpers {
            ops.push(RemoveWs(a));
            ops.push(CreateMissingPrefixes(a));
            ops.push(Dedup(a));
        }
    }
    if menu.creation {
        ops.push(NewElement);
        ops.push(NewText("s".into()));
        ops.push(NewText(" ".into()));
        ops.push(NewComment);
        ops.push(NewPi);
        ops.push(NewAttr(0));
        ops.push(NewAttr(1));
        ops.push(NewNs(1, 0));
        ops.push(NewNs(0, 1));
        ops.push(NewDocument);
    }
    if menu.parse {
        for i in 0..PARSE_TEXTS.len() {
            ops.push(Parse(i as u8));
        }
        for i in 0..FRAGMENT_TEXTS.len() {
            ops.push(ParseFragment(i as u8));
        }
    }
    if menu.consolidation_switch {
        ops.push(SetConsolidation(false));
        ops.push(SetConsolidation(true));
    }
    ops
}

pub fn forest_show(f: &[A]) -> String {
    f.iter().map(|t| t.show()).collect::<Vec<_>>().join(" | ")
}
