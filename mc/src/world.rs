//! The system under exploration for the history properties: one real `Xot` plus everything the
//! harness knows about its handles; the operation alphabet of the mutating API; forest snapshots.
use crate::atree::*;
use crate::common::*;
use crate::nsscope::{X, Y};
use serde::{Deserialize, Serialize};
use std::collections::BTreeMap;
use xot::{Node, Xot};

#[derive(Clone)]
pub struct World {
    pub xot: Xot,
    pub tab: HandleTable,
    /// harness knowledge: this handle has been observed removed
    pub dead: Vec<bool>,
    /// kind at the time the handle was first seen
    pub kinds: Vec<K>,
    pub consolidation: bool,
    pub ever_off: bool,
}

/// handle index (into World::tab)
pub type H = usize;

#[derive(Clone, Debug, PartialEq, Eq, Serialize, Deserialize, Hash)]
pub enum Op {
    // binary structural
    Append(H, H),
    Prepend(H, H),
    InsertAfter(H, H),
    InsertBefore(H, H),
    Replace(H, H),
    AnyAppend(H, H),
    AppendAttrNode(H, H),
    AppendNsNode(H, H),
    // unary structural
    Detach(H),
    Remove(H),
    Unwrap(H),
    Wrap(H),
    CloneNode(H),
    CloneWithPrefixes(H),
    // convenience creators under a parent
    AppendText(H, String),
    AppendElement(H),
    AppendComment(H),
    // map-style
    SetAttr(H, u8, String),
    RemoveAttr(H, u8),
    SetNs(H, u8, u8),
    RemoveNs(H, u8),
    AttrsClear(H),
    NssClear(H),
    SetElementName(H),
    // value setters
    SetText(H, String),
    SetComment(H, String),
    SetPiData(H, Option<String>),
    TextContentMut(H, String),
    SetAttrValue(H, String),
    // whole-tree helpers
    RemoveWs(H),
    CreateMissingPrefixes(H),
    Dedup(H),
    // creation
    NewElement,
    NewText(String),
    NewComment,
    NewPi,
    NewAttr(u8),
    NewNs(u8, u8),
    NewDocument,
    Parse(u8),
    ParseFragment(u8),
    SetConsolidation(bool),
    // C10 alphabet: nodes in new namespaces, pre-declared n0/n1, clone-and-attach
    AppendElementNs(H, u8),
    SetAttrNs(H, u8),
    DeclareN(H, u8, u8),
    CloneAppend(H, H),
    // remaining public mutators
    AppendPi(H),
    AppendNamespace(H, u8, u8),
    NewDocumentWithElement(H),
    ElementMutSetName(H),
    NsNodeSetNamespace(H, u8),
    SetPiTarget(H),
}

pub const NS4: [&str; 4] = [X, Y, "urn:z", "urn:w"];

pub const ATTR_NAMES: [(&str, &str); 3] = [("", "k"), (X, "l"), ("", "m")];
pub const PREFIXES: [&str; 2] = ["", "p"];
pub const URIS: [&str; 2] = [X, Y];
/// the first four are well-formed (the fourth builds one text node from text, CDATA with a CR, a reference and an
/// empty CDATA section); the others must be refused (attribute duplicated through an inherited synonym
/// prefix, prefix declared twice, duplicate xml:id): a parser that accepts one of them hands out a tree that breaks
/// the structural invariants
pub const PARSE_TEXTS: [&str; 7] = [
    "<r>u<s/>v</r>",
    "<r xml:id=\"i\"><s xml:id=\"j\"/></r>",
    "<p:r xmlns:p=\"urn:x\" p:l=\"1\"/>",
    "<r>u<![CDATA[v\rw]]>&#13;<![CDATA[]]>x</r>",
    "<r xmlns:p=\"urn:x\"><a xmlns:q=\"urn:x\" p:l=\"1\" q:l=\"2\"/></r>",
    "<r xmlns:p=\"urn:x\" xmlns:p=\"urn:y\"/>",
    "<r xml:id=\"i\"><s xml:id=\" i \"/></r>",
];
pub const PARSE_TEXTS_WELL_FORMED: usize = 4;
pub const FRAGMENT_TEXTS: [&str; 2] = ["u<s/>v", "<s/><s/>"];

#[derive(Clone, Debug, PartialEq, Eq)]
pub enum Outcome {
    Ok(Option<Node>),
    Err(String),
    Panic(String),
}

impl Op {
    pub fn name(&self) -> &'static str {
        use Op::*;
        match self {
            Append(..) => "append",
            Prepend(..) => "prepend",
            InsertAfter(..) => "insert_after",
            InsertBefore(..) => "insert_before",
            Replace(..) => "replace",
            AnyAppend(..) => "any_append",
            AppendAttrNode(..) => "append_attribute_node",
            AppendNsNode(..) => "append_namespace_node",
            Detach(..) => "detach",
            Remove(..) => "remove",
            Unwrap(..) => "element_unwrap",
            Wrap(..) => "element_wrap",
            CloneNode(..) => "clone_node",
            CloneWithPrefixes(..) => "clone_with_prefixes",
            AppendText(..) => "append_text",
            AppendElement(..) => "append_element",
            AppendComment(..) => "append_comment",
            SetAttr(..) => "set_attribute",
            RemoveAttr(..) => "remove_attribute",
            SetNs(..) => "set_namespace",
            RemoveNs(..) => "remove_namespace",
            AttrsClear(..) => "attributes_mut.clear",
            NssClear(..) => "namespaces_mut.clear",
            SetElementName(..) => "set_element_name",
            SetText(..) => "text_mut.set",
            SetComment(..) => "comment_mut.set",
            SetPiData(..) => "pi_mut.set_data",
            TextContentMut(..) => "text_content_mut",
            SetAttrValue(..) => "attribute_node_mut.set_value",
            RemoveWs(..) => "remove_insignificant_whitespace",
            CreateMissingPrefixes(..) => "create_missing_prefixes",
            Dedup(..) => "deduplicate_namespaces",
            NewElement => "new_element",
            NewText(..) => "new_text",
            NewComment => "new_comment",
            NewPi => "new_processing_instruction",
            NewAttr(..) => "new_attribute_node",
            NewNs(..) => "new_namespace_node",
            NewDocument => "new_document",
            Parse(..) => "parse",
            ParseFragment(..) => "parse_fragment",
            SetConsolidation(..) => "set_text_consolidation",
            AppendElementNs(..) => "append(new element in namespace)",
            SetAttrNs(..) => "set_attribute(namespaced)",
            DeclareN(..) => "set_namespace(nN)",
            CloneAppend(..) => "clone_node+append",
            AppendPi(..) => "append_processing_instruction",
            AppendNamespace(..) => "append_namespace",
            NewDocumentWithElement(..) => "new_document_with_element",
            ElementMutSetName(..) => "element_mut.set_name",
            NsNodeSetNamespace(..) => "namespace_node_mut.set_namespace",
            SetPiTarget(..) => "pi_mut.set_target",
        }
    }
    pub fn args(&self) -> Vec<H> {
        use Op::*;
        match self {
            Append(a, b) | Prepend(a, b) | InsertAfter(a, b) | InsertBefore(a, b) | Replace(a, b) | AnyAppend(a, b) | AppendAttrNode(a, b) | AppendNsNode(a, b) | CloneAppend(a, b) => vec![*a, *b],
            AppendElementNs(a, _) | SetAttrNs(a, _) | DeclareN(a, ..) => vec![*a],
            AppendPi(a) | AppendNamespace(a, ..) | NewDocumentWithElement(a) | ElementMutSetName(a) | NsNodeSetNamespace(a, _) | SetPiTarget(a) => vec![*a],
            Detach(a) | Remove(a) | Unwrap(a) | Wrap(a) | CloneNode(a) | CloneWithPrefixes(a) | AppendText(a, _) | AppendElement(a) | AppendComment(a) | SetAttr(a, ..) | RemoveAttr(a, _) | SetNs(a, ..)
            | RemoveNs(a, _) | AttrsClear(a) | NssClear(a) | SetElementName(a) | SetText(a, _) | SetComment(a, _) | SetPiData(a, _) | TextContentMut(a, _) | SetAttrValue(a, _) | RemoveWs(a) | CreateMissingPrefixes(a) | Dedup(a) => {
                vec![*a]
            }
            _ => vec![],
        }
    }
    /// the element-only accessors whose panic on a non-element is documented
    pub fn documented_panic_on_non_element(&self) -> bool {
        use Op::*;
        matches!(self, SetAttr(..) | RemoveAttr(..) | SetNs(..) | RemoveNs(..) | AttrsClear(..) | NssClear(..) | SetElementName(..))
    }
}

impl World {
    pub fn new() -> World {
        World { xot: Xot::new(), tab: HandleTable::new(), dead: vec![], kinds: vec![], consolidation: true, ever_off: false }
    }

    /// Build a start forest. Trees are built with consolidation off so that adjacent text can exist if asked for.
    pub fn from_forest(trees: &[A], allow_adjacent_text: bool) -> World {
        let mut w = World::new();
        if allow_adjacent_text {
            w.xot.set_text_consolidation(false);
        }
        for t in trees {
            let mut hs = vec![];
            build(&mut w.xot, t, &mut hs);
            for h in hs {
                w.intern(h);
            }
        }
        if allow_adjacent_text {
            w.xot.set_text_consolidation(true);
        }
        w
    }

    pub fn intern(&mut self, n: Node) -> H {
        let before = self.tab.len();
        let i = self.tab.intern(n);
        if self.tab.len() > before {
            self.dead.push(false);
            self.kinds.push(kind_of(&self.xot, n));
        }
        i
    }

    pub fn node(&self, h: H) -> Node {
        self.tab.nodes[h]
    }

    pub fn live(&self) -> Vec<H> {
        (0..self.tab.len()).filter(|h| !self.dead[*h]).collect()
    }

    fn attr_name(&mut self, i: u8) -> xot::NameId {
        let (ns, l) = ATTR_NAMES[i as usize];
        let nsid = self.xot.add_namespace(ns);
        self.xot.add_name_ns(l, nsid)
    }

    /// Execute one operation on the real code under catch_unwind.
    pub fn apply(&mut self, op: &Op) -> Outcome {
        use Op::*;
        let nodes: Vec<Node> = op.args().iter().map(|h| self.node(*h)).collect();
        let r = catch(|| -> Result<Option<Node>, String> {
            let e = |r: Result<(), xot::Error>| r.map(|_| None).map_err(|e| format!("{:?}", e));
            let en = |r: Result<Node, xot::Error>| r.map(Some).map_err(|e| format!("{:?}", e));
            match op {
                Append(..) => e(self.xot.append(nodes[0], nodes[1])),
                Prepend(..) => e(self.xot.prepend(nodes[0], nodes[1])),
                InsertAfter(..) => e(self.xot.insert_after(nodes[0], nodes[1])),
                InsertBefore(..) => e(self.xot.insert_before(nodes[0], nodes[1])),
                Replace(..) => e(self.xot.replace(nodes[0], nodes[1])),
                AnyAppend(..) => en(self.xot.any_append(nodes[0], nodes[1])),
                AppendAttrNode(..) => en(self.xot.append_attribute_node(nodes[0], nodes[1])),
                AppendNsNode(..) => en(self.xot.append_namespace_node(nodes[0], nodes[1])),
                Detach(..) => e(self.xot.detach(nodes[0])),
                Remove(..) => e(self.xot.remove(nodes[0])),
                Unwrap(..) => e(self.xot.element_unwrap(nodes[0])),
                Wrap(..) => {
                    let n = self.xot.add_name("w");
                    en(self.xot.element_wrap(nodes[0], n))
                }
                CloneNode(..) => Ok(Some(self.xot.clone_node(nodes[0]))),
                CloneWithPrefixes(..) => Ok(Some(self.xot.clone_with_prefixes(nodes[0]))),
                AppendText(_, s) => e(self.xot.append_text(nodes[0], s)),
                AppendElement(..) => {
                    let n = self.xot.add_name("n");
                    e(self.xot.append_element(nodes[0], n))
                }
                AppendComment(..) => e(self.xot.append_comment(nodes[0], "nc")),
                SetAttr(_, a, v) => {
                    let n = self.attr_name(*a);
                    self.xot.set_attribute(nodes[0], n, v.clone());
                    Ok(None)
                }
                RemoveAttr(_, a) => {
                    let n = self.attr_name(*a);
                    self.xot.remove_attribute(nodes[0], n);
                    Ok(None)
                }
                SetNs(_, p, u) => {
                    let p = self.xot.add_prefix(PREFIXES[*p as usize]);
                    let u = self.xot.add_namespace(URIS[*u as usize]);
                    self.xot.set_namespace(nodes[0], p, u);
                    Ok(None)
                }
                RemoveNs(_, p) => {
                    let p = self.xot.add_prefix(PREFIXES[*p as usize]);
                    self.xot.remove_namespace(nodes[0], p);
                    Ok(None)
                }
                AttrsClear(..) => {
                    self.xot.attributes_mut(nodes[0]).clear();
                    Ok(None)
                }
                NssClear(..) => {
                    self.xot.namespaces_mut(nodes[0]).clear();
                    Ok(None)
                }
                SetElementName(..) => {
                    let ns = self.xot.add_namespace(X);
                    let n = self.xot.add_name_ns("z", ns);
                    self.xot.set_element_name(nodes[0], n);
                    Ok(None)
                }
                SetText(_, s) => match self.xot.text_mut(nodes[0]) {
                    Some(t) => {
                        t.set(s.clone());
                        Ok(None)
                    }
                    None => Err("NotText".into()),
                },
                SetComment(_, s) => match self.xot.comment_mut(nodes[0]) {
                    Some(c) => c.set(s.clone()).map(|_| None).map_err(|e| format!("{:?}", e)),
                    None => Err("NotComment".into()),
                },
                SetPiData(_, d) => match self.xot.processing_instruction_mut(nodes[0]) {
                    Some(p) => {
                        p.set_data(d.clone());
                        Ok(None)
                    }
                    None => Err("NotPi".into()),
                },
                TextContentMut(_, s) => match self.xot.text_content_mut(nodes[0]) {
                    Some(t) => {
                        t.set(s.clone());
                        Ok(None)
                    }
                    None => Err("NoTextContent".into()),
                },
                SetAttrValue(_, s) => match self.xot.attribute_node_mut(nodes[0]) {
                    Some(a) => {
                        a.set_value(s.clone());
                        Ok(None)
                    }
                    None => Err("NotAttribute".into()),
                },
                RemoveWs(..) => {
                    self.xot.remove_insignificant_whitespace(nodes[0]);
                    Ok(None)
                }
                CreateMissingPrefixes(..) => e(self.xot.create_missing_prefixes(nodes[0])),
                Dedup(..) => {
                    self.xot.deduplicate_namespaces(nodes[0]);
                    Ok(None)
                }
                NewElement => {
                    let n = self.xot.add_name("n");
                    Ok(Some(self.xot.new_element(n)))
                }
                NewText(s) => Ok(Some(self.xot.new_text(s))),
                NewComment => Ok(Some(self.xot.new_comment("nc"))),
                NewPi => {
                    let n = self.xot.add_name("npi");
                    Ok(Some(self.xot.new_processing_instruction(n, Some("d"))))
                }
                NewAttr(a) => {
                    let n = self.attr_name(*a);
                    Ok(Some(self.xot.new_attribute_node(n, "n".to_string())))
                }
                NewNs(p, u) => {
                    let p = self.xot.add_prefix(PREFIXES[*p as usize]);
                    let u = self.xot.add_namespace(URIS[*u as usize]);
                    Ok(Some(self.xot.new_namespace_node(p, u)))
                }
                NewDocument => Ok(Some(self.xot.new_document())),
                AppendPi(..) => {
                    let n = self.xot.add_name("npi");
                    e(self.xot.append_processing_instruction(nodes[0], n, Some("d")))
                }
                AppendNamespace(_, p, u) => {
                    let c = xot::xmlname::CreateNamespace::new(&mut self.xot, PREFIXES[*p as usize], URIS[*u as usize]);
                    en(self.xot.append_namespace(nodes[0], &c))
                }
                NewDocumentWithElement(..) => en(self.xot.new_document_with_element(nodes[0])),
                ElementMutSetName(..) => {
                    let ns = self.xot.add_namespace(X);
                    let n = self.xot.add_name_ns("z", ns);
                    match self.xot.element_mut(nodes[0]) {
                        Some(el) => {
                            el.set_name(n);
                            Ok(None)
                        }
                        None => Err("NotElement".into()),
                    }
                }
                NsNodeSetNamespace(_, u) => {
                    let u = self.xot.add_namespace(URIS[*u as usize]);
                    match self.xot.namespace_node_mut(nodes[0]) {
                        Some(n) => {
                            n.set_namespace(u);
                            Ok(None)
                        }
                        None => Err("NotNamespace".into()),
                    }
                }
                SetPiTarget(..) => {
                    let t = self.xot.add_name("t2");
                    match self.xot.processing_instruction_mut(nodes[0]) {
                        Some(p) => p.set_target::<String>(t).map(|_| None).map_err(|e| format!("{:?}", e)),
                        None => Err("NotPi".into()),
                    }
                }
                Parse(i) => self.xot.parse(PARSE_TEXTS[*i as usize]).map(Some).map_err(|e| format!("{:?}", e)),
                ParseFragment(i) => self.xot.parse_fragment(FRAGMENT_TEXTS[*i as usize]).map(Some).map_err(|e| format!("{:?}", e)),
                SetConsolidation(b) => {
                    self.xot.set_text_consolidation(*b);
                    Ok(None)
                }
                AppendElementNs(_, n) => {
                    let ns = self.xot.add_namespace(NS4[*n as usize]);
                    let name = self.xot.add_name_ns("e", ns);
                    let el = self.xot.new_element(name);
                    self.xot.append(nodes[0], el).map(|_| Some(el)).map_err(|e| format!("{:?}", e))
                }
                SetAttrNs(_, n) => {
                    if !self.xot.is_element(nodes[0]) {
                        return Err("NotElement".into());
                    }
                    let ns = self.xot.add_namespace(NS4[*n as usize]);
                    let name = self.xot.add_name_ns("t", ns);
                    self.xot.set_attribute(nodes[0], name, "v");
                    Ok(None)
                }
                DeclareN(_, p, n) => {
                    if !self.xot.is_element(nodes[0]) {
                        return Err("NotElement".into());
                    }
                    let p = self.xot.add_prefix(if *p == 0 { "n0" } else { "n1" });
                    let ns = self.xot.add_namespace(NS4[*n as usize]);
                    self.xot.set_namespace(nodes[0], p, ns);
                    Ok(None)
                }
                CloneAppend(..) => {
                    if !self.xot.is_element(nodes[1]) && !self.xot.is_document(nodes[1]) {
                        return Err("NotContainer".into());
                    }
                    let c = self.xot.clone_node(nodes[0]);
                    self.xot.append(nodes[1], c).map(|_| Some(c)).map_err(|e| format!("{:?}", e))
                }
            }
        });
        match r {
            Err(p) => Outcome::Panic(p),
            Ok(Err(e)) => Outcome::Err(e),
            Ok(Ok(n)) => {
                if let SetConsolidation(b) = op {
                    self.consolidation = *b;
                    if !*b {
                        self.ever_off = true;
                    }
                }
                if let Some(n) = n {
                    self.intern(n);
                }
                Outcome::Ok(n)
            }
        }
    }

    /// Observe liveness through `is_removed`; returns handles that report live again after having been dead.
    pub fn refresh_liveness(&mut self) -> Vec<H> {
        let mut resurrected = vec![];
        for h in 0..self.tab.len() {
            let removed = catch(|| self.xot.is_removed(self.tab.nodes[h])).unwrap_or(true);
            if self.dead[h] {
                if !removed {
                    resurrected.push(h);
                }
            } else if removed {
                self.dead[h] = true;
            }
        }
        resurrected
    }

    /// Roots of all live handles (upward via `parent`, bounded), in handle order.
    pub fn roots(&self) -> Result<Vec<Node>, String> {
        let mut roots: Vec<Node> = vec![];
        for h in self.live() {
            let mut n = self.node(h);
            let mut steps = 0;
            while let Some(p) = self.xot.parent(n) {
                n = p;
                steps += 1;
                if steps > 10_000 {
                    return Err(format!("parent chain of handle {} does not end (cycle)", h));
                }
            }
            if !roots.contains(&n) {
                roots.push(n);
            }
        }
        Ok(roots)
    }

    /// Downward read-back of every tree; interns handles the implementation created itself.
    pub fn snapshot(&mut self) -> Result<Vec<A>, String> {
        let roots = self.roots()?;
        let mut out = vec![];
        for r in roots {
            let mut budget = 5_000usize;
            let a = read_ids_guarded(&self.xot, r, &mut self.tab, &mut budget, 0)?;
            while self.dead.len() < self.tab.len() {
                let n = self.tab.nodes[self.dead.len()];
                self.dead.push(false);
                self.kinds.push(kind_of(&self.xot, n));
            }
            out.push(a);
        }
        Ok(out)
    }
}

/// `read_ids` with a node budget and depth cap, so that a corrupted (cyclic) structure ends in an error
pub fn read_ids_guarded(xot: &Xot, n: Node, tab: &mut HandleTable, budget: &mut usize, depth: usize) -> Result<A, String> {
    if *budget == 0 || depth > 500 {
        return Err("read-back does not terminate (cyclic or unbounded child list)".into());
    }
    *budget -= 1;
    let mut a = read_node(xot, n);
    a.id = tab.intern(n) as u32 + 1;
    if matches!(a.k, K::Doc | K::Elem) {
        for c in xot.namespaces(n).nodes().take(*budget + 1) {
            let mut x = read_ids_guarded(xot, c, tab, budget, depth + 1)?;
            x.ch.clear();
            a.nss.push(x);
        }
        for c in xot.attributes(n).nodes().take(*budget + 1) {
            let mut x = read_ids_guarded(xot, c, tab, budget, depth + 1)?;
            x.ch.clear();
            a.attrs.push(x);
        }
        let kids: Vec<Node> = xot.children(n).take(*budget + 1).collect();
        for c in kids {
            a.ch.push(read_ids_guarded(xot, c, tab, budget, depth + 1)?);
        }
    }
    Ok(a)
}

/// Canonical state key (DESIGN §2.4): sorted multiset of canonical trees + mode bits + capped stale-handle count.
pub fn state_key(w: &World, forest: &[A]) -> String {
    let mut c: Vec<String> = forest.iter().map(|t| t.canon()).collect();
    c.sort();
    let stale = w.dead.iter().filter(|d| **d).count().min(2);
    format!("{}|c{}|o{}|s{}", c.join(";"), w.consolidation as u8, w.ever_off as u8, stale)
}

/// Canonical order of live handles: trees sorted by canonical form, nodes in walk order.
pub fn canonical_handles(forest: &[A]) -> Vec<H> {
    let mut idx: Vec<usize> = (0..forest.len()).collect();
    idx.sort_by_key(|i| forest[*i].canon());
    let mut out = vec![];
    for i in idx {
        forest[i].walk_all(&mut |n: &A| out.push(n.id as usize - 1));
    }
    out
}

pub fn find<'a>(forest: &'a [A], id: u32) -> Option<&'a A> {
    fn rec(a: &A, id: u32) -> Option<&A> {
        if a.id == id {
            return Some(a);
        }
        for n in a.nss.iter().chain(a.attrs.iter()) {
            if n.id == id {
                return Some(n);
            }
        }
        a.ch.iter().find_map(|c| rec(c, id))
    }
    forest.iter().find_map(|t| rec(t, id))
}

/// parent id and root id of every node id
pub fn relations(forest: &[A]) -> BTreeMap<u32, (Option<u32>, u32)> {
    fn rec(a: &A, parent: Option<u32>, root: u32, m: &mut BTreeMap<u32, (Option<u32>, u32)>) {
        m.insert(a.id, (parent, root));
        for n in a.nss.iter().chain(a.attrs.iter()) {
            m.insert(n.id, (Some(a.id), root));
        }
        for c in &a.ch {
            rec(c, Some(a.id), root, m);
        }
    }
    let mut m = BTreeMap::new();
    for t in forest {
        rec(t, None, t.id, &mut m);
    }
    m
}

/// Relation of argument b to argument a, from the fixed vocabulary of DESIGN appendix C.
pub fn relation(forest: &[A], a: H, b: H) -> &'static str {
    let (ia, ib) = (a as u32 + 1, b as u32 + 1);
    if ia == ib {
        return "same";
    }
    let rel = relations(forest);
    let (Some(ra), Some(rb)) = (rel.get(&ia), rel.get(&ib)) else { return "unknown" };
    let anc = |x: u32, of: u32| {
        let mut c = of;
        while let Some((Some(p), _)) = rel.get(&c) {
            if *p == x {
                return true;
            }
            c = *p;
        }
        false
    };
    if rb.0 == Some(ia) {
        return "child";
    }
    if ra.0 == Some(ib) {
        return "parent";
    }
    if anc(ia, ib) {
        return "descendant";
    }
    if anc(ib, ia) {
        return "ancestor";
    }
    if ra.1 != rb.1 {
        // different trees: distinguish a bare unattached node from a node inside another tree
        return if rb.0.is_none() { "unattached" } else { "other_tree" };
    }
    if ra.0 == rb.0 && ra.0.is_some() {
        if let Some(p) = find(forest, ra.0.unwrap()) {
            let pa = p.ch.iter().position(|c| c.id == ia);
            let pb = p.ch.iter().position(|c| c.id == ib);
            if let (Some(pa), Some(pb)) = (pa, pb) {
                if pb + 1 == pa {
                    return "prev_sibling";
                }
                if pa + 1 == pb {
                    return "next_sibling";
                }
            }
        }
        return "sibling";
    }
    "same_tree"
}

/// extra context of an argument for signatures: is it a text node with text neighbours?
pub fn text_context(forest: &[A], h: H) -> &'static str {
    let id = h as u32 + 1;
    let rel = relations(forest);
    let Some((Some(p), _)) = rel.get(&id) else { return "" };
    let Some(p) = find(forest, *p) else { return "" };
    let Some(pos) = p.ch.iter().position(|c| c.id == id) else { return "" };
    let l = pos > 0 && p.ch[pos - 1].k == K::Text;
    let r = pos + 1 < p.ch.len() && p.ch[pos + 1].k == K::Text;
    match (l, r) {
        (true, true) => "+between_text",
        (true, false) => "+after_text",
        (false, true) => "+before_text",
        _ => "",
    }
}

pub fn kind_name(w: &World, h: H) -> &'static str {
    w.kinds[h].name()
}

/// signature part describing the call: op, argument kinds, relation, text context
pub fn call_signature(w: &World, forest: &[A], op: &Op) -> String {
    let args = op.args();
    match args.len() {
        0 => op.name().to_string(),
        1 => {
            let attached = relations(forest).get(&(args[0] as u32 + 1)).map(|r| r.0.is_some()).unwrap_or(false);
            format!("{}({}{}{})", op.name(), kind_name(w, args[0]), if attached { "" } else { ":root" }, text_context(forest, args[0]))
        }
        _ => format!(
            "{}({}{},{}{};{})",
            op.name(),
            kind_name(w, args[0]),
            text_context(forest, args[0]),
            kind_name(w, args[1]),
            text_context(forest, args[1]),
            relation(forest, args[0], args[1])
        ),
    }
}
