mod atree;
mod bfs;
mod histcommon;
mod inv;
mod mforest;
mod world;
mod common;
mod gen;
mod nsscope;
mod props;
mod selftest;
mod spell;
mod xmlread;
mod xmlwrite;

use common::*;

fn usage() -> ! {
    eprintln!("usage: xotmc <C01..C20|selftest> [--tier quick|thorough] [--replay <file>]");
    std::process::exit(2)
}

fn main() {
    let args: Vec<String> = std::env::args().collect();
    if args.len() < 2 {
        usage();
    }
    let prop = args[1].to_uppercase();
    if prop == "C07HUGE" {
        // child process of C07 (one huge instance; see props/c07.rs)
        std::process::exit(props::c07::huge_child(args.get(2).map(|s| s.as_str()).unwrap_or("")));
    }
    let mut tier = match std::env::var("VERIF_TIER").as_deref() {
        Ok("thorough") => Tier::Thorough,
        _ => Tier::Quick,
    };
    let mut replay: Option<String> = None;
    let mut i = 2;
    while i < args.len() {
        match args[i].as_str() {
            "--tier" => {
                i += 1;
                tier = match args.get(i).map(|s| s.as_str()) {
                    Some("quick") => Tier::Quick,
                    Some("thorough") => Tier::Thorough,
                    _ => usage(),
                };
            }
            "--replay" => {
                i += 1;
                replay = Some(args.get(i).cloned().unwrap_or_else(|| usage()));
            }
            _ => usage(),
        }
        i += 1;
    }
    install_panic_hook();
    let threads = std::env::var("VERIF_THREADS").ok().and_then(|s| s.parse().ok()).unwrap_or(16);
    rayon::ThreadPoolBuilder::new().num_threads(threads).stack_size(64 << 20).build_global().unwrap();
    if let Some(p) = &replay {
        if let Ok(t) = std::fs::read_to_string(p) {
            if let Ok(v) = serde_json::from_str::<serde_json::Value>(&t) {
                if v.get("hang").and_then(|h| h.as_bool()) == Some(true) {
                    println!("this replay file records a non-terminating evaluation; it is not re-executed:");
                    println!("  {}", v["detail"].as_str().unwrap_or(""));
                    println!("VIOLATION property={} replay={}", prop, p);
                    std::process::exit(1);
                }
            }
        }
    }
    if prop == "SELFTEST" {
        std::process::exit(selftest::run(tier));
    }
    macro_rules! dispatch {
        ($($id:literal => $m:ident),* $(,)?) => {
            match (prop.as_str(), replay) {
                $(
                    ($id, None) => props::$m::run(tier),
                    ($id, Some(p)) => replay_case::<props::$m::Case>(&p, $id, props::$m::eval),
                )*
                _ => {
                    eprintln!("unknown property {}", prop);
                    2
                }
            }
        };
    }
    let code = dispatch!(
        "C01" => c01,
        "C02" => c02,
        "C03" => c03,
        "C04" => c04,
        "C05" => c05,
        "C06" => c06,
        "C07" => c07,
        "C08" => c08,
        "C09" => c09,
        "C10" => c10,
        "C11" => c11,
        "C12" => c12,
        "C13" => c13,
        "C14" => c14,
        "C15" => c15,
        "C16" => c16,
        "C19" => c19,
        "C20" => c20,
        "C17" => c17,
        "C18" => c18,
    );
    std::process::exit(code);
}
