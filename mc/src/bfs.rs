//! E-BFS: explicit-state, level-synchronous breadth-first search over forests reached by public API
//! calls on the real code. States are deduplicated on the canonical key of `world::state_key`;
//! a state is represented by its history (start index + operation list) and rebuilt by replay.
use crate::atree::*;
use crate::common::*;
use crate::world::*;
use rayon::prelude::*;
use serde::{Deserialize, Serialize};
use std::collections::{BTreeMap, HashSet};

#[derive(Clone, Serialize, Deserialize)]
pub struct Start {
    pub name: String,
    pub forest: Vec<A>,
    pub adjacent_text: bool,
    pub consolidation: bool,
    /// indices of world::PARSE_TEXTS parsed into the start forest (fills the xml:id index)
    #[serde(default)]
    pub parse: Vec<u8>,
}

impl Start {
    /// adjacent text nodes exist although consolidation is on now: consolidation was off at some time
    pub fn is_mixed(&self) -> bool {
        self.adjacent_text && self.consolidation
    }
}

impl Start {
    pub fn world(&self) -> World {
        let mut w = World::from_forest(&self.forest, self.adjacent_text);
        if self.adjacent_text {
            // built with consolidation switched off
            w.ever_off = true;
        }
        for i in &self.parse {
            w.apply(&Op::Parse(*i));
        }
        if !self.consolidation {
            w.apply(&Op::SetConsolidation(false));
        }
        w
    }
}

#[derive(Clone, Serialize, Deserialize)]
pub struct HistoryCase {
    pub start: Start,
    pub ops: Vec<Op>,
}

pub struct Step<'a> {
    pub pre: &'a World,
    pub pre_forest: &'a [A],
    pub op: &'a Op,
    pub outcome: &'a Outcome,
    pub post: &'a mut World,
    /// Err = the read-back itself failed (cycle, panic in an accessor)
    pub post_forest: &'a Result<Vec<A>, String>,
    pub resurrected: &'a [H],
}

/// A failure with this signature prefix is reported like any other, but the successor state is still explored (the
/// forest is otherwise exactly as predicted, so the exploration behind it is meaningful).
pub const SOFT_SIGNATURE: &str = "model:merged-into-later-node";

pub struct Verdict {
    pub fails: Vec<Fail>,
    /// expand the successor state (false: refused / panicked / broken / out-of-contract)
    pub expand: bool,
}

pub trait Oracle: Sync {
    fn ops(&self, w: &World, forest: &[A], depth: usize) -> Vec<Op>;
    fn judge(&self, step: Step, st: &mut Stats) -> Verdict;
}

/// Rebuild the world for a history. Returns None if the history cannot be replayed (should not happen).
pub fn replay_world(start: &Start, ops: &[Op]) -> Option<(World, Vec<A>)> {
    let mut w = start.world();
    w.snapshot().ok()?;
    for op in ops {
        w.apply(op);
        w.refresh_liveness();
        w.snapshot().ok()?;
    }
    let f = w.snapshot().ok()?;
    Some((w, f))
}

/// Execute one transition and judge it.
pub fn run_step(oracle: &dyn Oracle, pre: &World, pre_forest: &[A], op: &Op, st: &mut Stats) -> (Verdict, World, Result<Vec<A>, String>) {
    let mut post = pre.clone();
    let outcome = post.apply(op);
    let resurrected = post.refresh_liveness();
    let post_forest = match catch(|| post.snapshot()) {
        Ok(r) => r,
        Err(p) => Err(format!("accessor panicked during read-back: {}", p)),
    };
    st.evals += 1;
    match &outcome {
        Outcome::Ok(_) => st.bump("calls_ok"),
        Outcome::Err(_) => st.bump("calls_refused"),
        Outcome::Panic(_) => st.bump("calls_panicked"),
    }
    let v = oracle.judge(Step { pre, pre_forest, op, outcome: &outcome, post: &mut post, post_forest: &post_forest, resurrected: &resurrected }, st);
    (v, post, post_forest)
}

pub struct BfsResult {
    pub stats: Stats,
    pub states: u64,
    pub transitions: u64,
    pub levels: Vec<serde_json::Value>,
}

/// 128-bit digest of a canonical state key (two independently keyed 64-bit hashes). States are deduplicated on the
/// digest, not on the key text: two different states are merged only if both hashes collide (probability
/// ~ n^2 / 2^129, i.e. < 1e-22 for the 5e7 states of the deepest run), which would only make the search stop early at
/// one state - every transition is still judged on the real pre- and post-state, never on the digest.
pub fn key128(key: &str) -> u128 {
    use std::hash::{Hash, Hasher};
    let mut h1 = std::collections::hash_map::DefaultHasher::new();
    0x9e37_79b9_7f4a_7c15u64.hash(&mut h1);
    key.hash(&mut h1);
    let mut h2 = std::collections::hash_map::DefaultHasher::new();
    key.len().hash(&mut h2);
    key.hash(&mut h2);
    0x2545_f491_4f6c_dd1du64.hash(&mut h2);
    ((h1.finish() as u128) << 64) | h2.finish() as u128
}

type Acc = (Stats, Vec<(u128, Vec<Op>)>, HashSet<u128>);

pub fn bfs(ctx: &Ctx, oracle: &dyn Oracle, starts: &[Start], depth: usize) -> BfsResult {
    let mut total = Stats::default();
    let mut states: u64 = 0;
    let mut transitions: u64 = 0;
    let mut levels = vec![];
    for start in starts {
        let mut visited: HashSet<u128> = HashSet::new();
        let (w0, f0) = match replay_world(start, &[]) {
            Some(x) => x,
            None => {
                eprintln!("MACHINERY: start {} cannot be built", start.name);
                std::process::exit(2);
            }
        };
        visited.insert(key128(&state_key(&w0, &f0)));
        let mut frontier: Vec<Vec<Op>> = vec![vec![]];
        for d in 0..depth {
            if ctx.expired() {
                total.capped = true;
                break;
            }
            let last_level = d + 1 == depth;
            // expand every frontier state in parallel; the operations of one state are split into chunks
            // so that small frontiers still use all cores
            let plans: Vec<(usize, usize)> = frontier
                .par_iter()
                .enumerate()
                .map(|(i, hist)| match replay_world(start, hist) {
                    Some((w, f)) => (i, oracle.ops(&w, &f, d).len()),
                    None => (i, 0),
                })
                .collect();
            const CHUNK: usize = 96;
            let mut items: Vec<(usize, usize, usize)> = vec![];
            for (i, n) in plans {
                let mut lo = 0;
                while lo < n {
                    items.push((i, lo, (lo + CHUNK).min(n)));
                    lo += CHUNK;
                }
            }
            // results are folded as they are produced (nothing per transition is kept): successor histories for the
            // next level, or - on the last level - only the digests of the states reached
            let visited_ref = &visited;
            let frontier_ref = &frontier;
            let (level_stats, succ, last_keys): Acc = items
                .par_iter()
                .fold(
                    || (Stats::default(), Vec::new(), HashSet::new()),
                    |(acc_st, mut acc_succ, mut acc_keys): Acc, (hi, lo, hi_end)| {
                        let hist = &frontier_ref[*hi];
                        let mut st = Stats::default();
                        if ctx.expired() {
                            st.capped = true;
                            return (acc_st.merge(st), acc_succ, acc_keys);
                        }
                        let Some((w, f)) = replay_world(start, hist) else {
                            st.bump("replay_failed");
                            return (acc_st.merge(st), acc_succ, acc_keys);
                        };
                        let ops = oracle.ops(&w, &f, d);
                        watch_phase(&format!("bfs start={} depth={} history={:?}", start.name, d + 1, hist));
                        watch_begin(*lo as u64, *hi_end as u64);
                        for op in ops[*lo..*hi_end].iter().cloned() {
                            let (v, post, post_forest) = run_step(oracle, &w, &f, &op, &mut st);
                            st.bump("transitions");
                            let blocking = v.fails.iter().any(|f| !f.sig.starts_with(SOFT_SIGNATURE));
                            if !v.fails.is_empty() {
                                let mut ops = hist.clone();
                                ops.push(op.clone());
                                let case = HistoryCase { start: start.clone(), ops };
                                for fl in v.fails {
                                    st.fail(&case, fl);
                                }
                            }
                            if !blocking && v.expand {
                                if let Ok(pf) = &post_forest {
                                    let key = key128(&state_key(&post, pf));
                                    st.outcome(&key);
                                    if visited_ref.contains(&key) {
                                        // known state
                                    } else if !last_level {
                                        let mut ops = hist.clone();
                                        ops.push(op.clone());
                                        acc_succ.push((key, ops));
                                    } else {
                                        acc_keys.insert(key);
                                    }
                                }
                            }
                            if st.evals % 50_000 == 17 {
                                let pre_show: Vec<String> = f.iter().map(|t| t.show()).collect();
                                st.sample(|| serde_json::json!({"start": start.name, "history": format!("{:?}", hist), "state": pre_show, "op": format!("{:?}", op)}));
                            }
                        }
                        watch_end();
                        (acc_st.merge(st), acc_succ, acc_keys)
                    },
                )
                .reduce(
                    || (Stats::default(), Vec::new(), HashSet::new()),
                    |a: Acc, b: Acc| {
                        let (mut succ, mut keys) = (a.1, a.2);
                        succ.extend(b.1);
                        if keys.len() < b.2.len() {
                            let mut big = b.2;
                            big.extend(keys);
                            keys = big;
                        } else {
                            keys.extend(b.2);
                        }
                        (a.0.merge(b.0), succ, keys)
                    },
                );
            let level_transitions = level_stats.counters.get("transitions").copied().unwrap_or(0);
            total = total.merge(level_stats);
            // deterministic merge: of several histories reaching one new state the smallest one is kept
            let mut cands: BTreeMap<u128, Vec<Op>> = BTreeMap::new();
            for (k, ops) in succ {
                match cands.get(&k) {
                    Some(old) if format!("{:?}", old) <= format!("{:?}", ops) => {}
                    _ => {
                        cands.insert(k, ops);
                    }
                }
            }
            transitions += level_transitions;
            let new_states = (cands.len() + last_keys.len()) as u64;
            for k in cands.keys() {
                visited.insert(*k);
            }
            visited.extend(last_keys);
            levels.push(serde_json::json!({"start": start.name, "depth": d + 1, "frontier": frontier.len(), "transitions": level_transitions, "new_states": new_states}));
            frontier = cands.into_values().collect();
            if frontier.is_empty() {
                break;
            }
        }
        states += visited.len() as u64;
    }
    BfsResult { stats: total, states, transitions, levels }
}

/// Depth-1 exploration from many start states, parallel over the starts.
pub fn sweep_depth1(ctx: &Ctx, oracle: &dyn Oracle, starts: &[Start]) -> BfsResult {
    let results: Vec<(Stats, u64, u64)> = starts
        .par_iter()
        .map(|start| {
            let mut st = Stats::default();
            if ctx.expired() {
                st.capped = true;
                return (st, 0, 0);
            }
            let Some((w, f)) = replay_world(start, &[]) else {
                st.bump("replay_failed");
                return (st, 0, 0);
            };
            let mut keys: HashSet<u128> = HashSet::new();
            keys.insert(key128(&state_key(&w, &f)));
            let mut transitions = 0u64;
            for op in oracle.ops(&w, &f, 0) {
                let (v, post, post_forest) = run_step(oracle, &w, &f, &op, &mut st);
                st.bump("transitions");
                transitions += 1;
                let blocking = v.fails.iter().any(|f| !f.sig.starts_with(SOFT_SIGNATURE));
                if !v.fails.is_empty() {
                    let case = HistoryCase { start: start.clone(), ops: vec![op.clone()] };
                    for fl in v.fails {
                        st.fail(&case, fl);
                    }
                }
                if !blocking && v.expand {
                    if let Ok(pf) = &post_forest {
                        let key = key128(&state_key(&post, pf));
                        st.outcome(&key);
                        keys.insert(key);
                    }
                }
            }
            (st, keys.len() as u64, transitions)
        })
        .collect();
    let mut total = Stats::default();
    let (mut states, mut transitions) = (0, 0);
    for (st, s, t) in results {
        total = total.merge(st);
        states += s;
        transitions += t;
    }
    BfsResult { stats: total, states, transitions, levels: vec![] }
}

/// Replay a history case: re-run all operations, judging the last one.
pub fn replay_history(oracle: &dyn Oracle, case: &HistoryCase) -> Vec<Fail> {
    if case.ops.is_empty() {
        return vec![];
    }
    let n = case.ops.len();
    let Some((w, f)) = replay_world(&case.start, &case.ops[..n - 1]) else { return vec![Fail::new("machinery|replay", "cannot rebuild the pre-state")] };
    let mut st = Stats::default();
    let (v, _, _) = run_step(oracle, &w, &f, &case.ops[n - 1], &mut st);
    v.fails
}
