//! `A` — the owned abstract tree used by every oracle, plus the adapters that
//! build it inside a real `Xot` through the creation API and read it back
//! through *public navigation only*.
use serde::{Deserialize, Serialize};
use std::collections::HashMap;
use std::fmt::Write as _;
use xot::{Node, Value, Xot};

pub const XML_NS: &str = "http://www.w3.org/XML/1998/namespace";

#[derive(Clone, Copy, Debug, PartialEq, Eq, Hash, PartialOrd, Ord, Serialize, Deserialize)]
pub enum K {
    Doc,
    Elem,
    Text,
    Comment,
    Pi,
    Attr,
    Ns,
}

impl K {
    pub fn normal(self) -> bool {
        !matches!(self, K::Attr | K::Ns)
    }
    pub fn name(self) -> &'static str {
        match self {
            K::Doc => "document",
            K::Elem => "element",
            K::Text => "text",
            K::Comment => "comment",
            K::Pi => "pi",
            K::Attr => "attribute",
            K::Ns => "namespace",
        }
    }
}

/// One node of an abstract tree.
/// * element / attribute: `ns` + `name` = expanded name
/// * PI: `name` = target, `val` = data
/// * namespace node: `name` = prefix, `ns` = URI
/// * text / comment / attribute: `val` = content
#[derive(Clone, Debug, PartialEq, Eq, Hash, Serialize, Deserialize)]
pub struct A {
    pub k: K,
    pub ns: String,
    pub name: String,
    pub val: Option<String>,
    pub nss: Vec<A>,
    pub attrs: Vec<A>,
    pub ch: Vec<A>,
    /// handle index + 1 in the owning table, 0 = none
    pub id: u32,
}

impl A {
    fn raw(k: K) -> A {
        A { k, ns: String::new(), name: String::new(), val: None, nss: vec![], attrs: vec![], ch: vec![], id: 0 }
    }
    pub fn doc(ch: Vec<A>) -> A {
        let mut a = A::raw(K::Doc);
        a.ch = ch;
        a
    }
    pub fn el(ns: &str, name: &str) -> A {
        let mut a = A::raw(K::Elem);
        a.ns = ns.into();
        a.name = name.into();
        a
    }
    pub fn text(s: &str) -> A {
        let mut a = A::raw(K::Text);
        a.val = Some(s.into());
        a
    }
    pub fn comment(s: &str) -> A {
        let mut a = A::raw(K::Comment);
        a.val = Some(s.into());
        a
    }
    pub fn pi(target: &str, data: Option<&str>) -> A {
        let mut a = A::raw(K::Pi);
        a.name = target.into();
        a.val = data.map(|s| s.to_string());
        a
    }
    pub fn attr_node(ns: &str, name: &str, val: &str) -> A {
        let mut a = A::raw(K::Attr);
        a.ns = ns.into();
        a.name = name.into();
        a.val = Some(val.into());
        a
    }
    pub fn ns_node(prefix: &str, uri: &str) -> A {
        let mut a = A::raw(K::Ns);
        a.name = prefix.into();
        a.ns = uri.into();
        a
    }
    pub fn attr(mut self, ns: &str, name: &str, val: &str) -> A {
        self.attrs.push(A::attr_node(ns, name, val));
        self
    }
    pub fn decl(mut self, prefix: &str, uri: &str) -> A {
        self.nss.push(A::ns_node(prefix, uri));
        self
    }
    pub fn child(mut self, c: A) -> A {
        self.ch.push(c);
        self
    }
    pub fn kids(mut self, c: Vec<A>) -> A {
        self.ch.extend(c);
        self
    }

    /// number of nodes, including attribute and namespace nodes
    pub fn size(&self) -> usize {
        1 + self.nss.len() + self.attrs.len() + self.ch.iter().map(|c| c.size()).sum::<usize>()
    }
    pub fn normal_size(&self) -> usize {
        1 + self.ch.iter().map(|c| c.normal_size()).sum::<usize>()
    }

    /// Canonical text without ids. Attribute / declaration order is kept.
    pub fn canon(&self) -> String {
        let mut s = String::new();
        self.canon_into(&mut s, false);
        s
    }
    /// Canonical text with ids.
    pub fn canon_ids(&self) -> String {
        let mut s = String::new();
        self.canon_into(&mut s, true);
        s
    }
    pub fn canon_into(&self, s: &mut String, ids: bool) {
        if ids {
            let _ = write!(s, "#{}", self.id);
        }
        match self.k {
            K::Doc => s.push('D'),
            K::Elem => {
                let _ = write!(s, "E{{{}}}{}", self.ns, self.name);
            }
            K::Text => {
                let _ = write!(s, "T{:?}", self.val.as_deref().unwrap_or(""));
            }
            K::Comment => {
                let _ = write!(s, "C{:?}", self.val.as_deref().unwrap_or(""));
            }
            K::Pi => {
                let _ = write!(s, "P{{{}}}{}{:?}", self.ns, self.name, self.val);
            }
            K::Attr => {
                let _ = write!(s, "@{{{}}}{}={:?}", self.ns, self.name, self.val.as_deref().unwrap_or(""));
            }
            K::Ns => {
                let _ = write!(s, "N{}={:?}", self.name, self.ns);
            }
        }
        if !self.nss.is_empty() {
            s.push('<');
            for n in &self.nss {
                n.canon_into(s, ids);
                s.push(',');
            }
            s.push('>');
        }
        if !self.attrs.is_empty() {
            s.push('(');
            for n in &self.attrs {
                n.canon_into(s, ids);
                s.push(',');
            }
            s.push(')');
        }
        if matches!(self.k, K::Doc | K::Elem) {
            s.push('[');
            for n in &self.ch {
                n.canon_into(s, ids);
            }
            s.push(']');
        }
    }

    /// Same tree with attributes sorted by expanded name (attribute *set* comparison)
    pub fn sorted_attrs(&self) -> A {
        let mut a = self.clone();
        a.attrs.sort_by(|x, y| (&x.ns, &x.name).cmp(&(&y.ns, &y.name)));
        a.ch = a.ch.iter().map(|c| c.sorted_attrs()).collect();
        a
    }
    /// Same tree with namespace declarations sorted by prefix.
    pub fn sorted_decls(&self) -> A {
        let mut a = self.clone();
        a.nss.sort_by(|x, y| x.name.cmp(&y.name));
        a.ch = a.ch.iter().map(|c| c.sorted_decls()).collect();
        a
    }
    /// Same tree without namespace declarations.
    pub fn without_decls(&self) -> A {
        let mut a = self.clone();
        a.nss.clear();
        a.ch = a.ch.iter().map(|c| c.without_decls()).collect();
        a
    }
    pub fn strip_ids(&self) -> A {
        let mut a = self.clone();
        a.id = 0;
        a.nss.iter_mut().for_each(|n| n.id = 0);
        a.attrs.iter_mut().for_each(|n| n.id = 0);
        a.ch = a.ch.iter().map(|c| c.strip_ids()).collect();
        a
    }
    /// Merge adjacent text children everywhere (what consolidation produces).
    pub fn merge_text(&self) -> A {
        let mut a = self.clone();
        let mut out: Vec<A> = vec![];
        for c in &self.ch {
            let c = c.merge_text();
            if c.k == K::Text {
                if let Some(last) = out.last_mut() {
                    if last.k == K::Text {
                        let mut v = last.val.clone().unwrap_or_default();
                        v.push_str(c.val.as_deref().unwrap_or(""));
                        last.val = Some(v);
                        continue;
                    }
                }
            }
            out.push(c);
        }
        a.ch = out;
        a
    }
    /// concatenated descendant text
    pub fn string_value(&self) -> String {
        match self.k {
            K::Doc | K::Elem => self.ch.iter().map(|c| match c.k {
                K::Text => c.val.clone().unwrap_or_default(),
                K::Elem => c.string_value(),
                _ => String::new(),
            }).collect(),
            K::Ns => self.ns.clone(),
            _ => self.val.clone().unwrap_or_default(),
        }
    }
    /// pre-order walk over all nodes: element, its ns nodes, its attr nodes, its children
    pub fn walk_all<'a>(&'a self, f: &mut dyn FnMut(&'a A)) {
        f(self);
        for n in &self.nss {
            f(n);
        }
        for n in &self.attrs {
            f(n);
        }
        for c in &self.ch {
            c.walk_all(f);
        }
    }
    /// render to XML-ish text for humans (samples / witnesses); not used by oracles
    pub fn show(&self) -> String {
        let mut s = String::new();
        self.show_into(&mut s);
        s
    }
    fn show_into(&self, s: &mut String) {
        let q = |ns: &str, n: &str| if ns.is_empty() { n.to_string() } else { format!("{{{}}}{}", ns, n) };
        match self.k {
            K::Doc => {
                s.push_str("DOC[");
                for c in &self.ch {
                    c.show_into(s);
                }
                s.push(']');
            }
            K::Elem => {
                let _ = write!(s, "<{}", q(&self.ns, &self.name));
                for n in &self.nss {
                    n.show_into(s);
                }
                for n in &self.attrs {
                    n.show_into(s);
                }
                if self.ch.is_empty() {
                    s.push_str("/>");
                } else {
                    s.push('>');
                    for c in &self.ch {
                        c.show_into(s);
                    }
                    let _ = write!(s, "</{}>", self.name);
                }
            }
            K::Text => {
                let _ = write!(s, "{:?}", self.val.as_deref().unwrap_or(""));
            }
            K::Comment => {
                let _ = write!(s, "<!--{}-->", self.val.as_deref().unwrap_or(""));
            }
            K::Pi => {
                let _ = write!(s, "<?{} {:?}?>", self.name, self.val);
            }
            K::Attr => {
                let _ = write!(s, " {}={:?}", q(&self.ns, &self.name), self.val.as_deref().unwrap_or(""));
            }
            K::Ns => {
                if self.name.is_empty() {
                    let _ = write!(s, " xmlns={:?}", self.ns);
                } else {
                    let _ = write!(s, " xmlns:{}={:?}", self.name, self.ns);
                }
            }
        }
    }
}

// ---------------------------------------------------------------------------------
// building into a real Xot

/// Build `a` in `xot` through the creation API. Returns the top node; every created
/// handle is pushed to `handles` in `walk_all` order (element, ns nodes, attr nodes, children).
pub fn build(xot: &mut Xot, a: &A, handles: &mut Vec<Node>) -> Node {
    match a.k {
        K::Doc => {
            let d = xot.new_document();
            handles.push(d);
            for c in &a.ch {
                let n = build(xot, c, handles);
                xot.append(d, n).expect("build: append under document");
            }
            d
        }
        K::Elem => {
            let nsid = xot.add_namespace(&a.ns);
            let name = xot.add_name_ns(&a.name, nsid);
            let e = xot.new_element(name);
            handles.push(e);
            for n in &a.nss {
                let nn = build(xot, n, handles);
                xot.append_namespace_node(e, nn).expect("build: ns node");
            }
            for n in &a.attrs {
                let nn = build(xot, n, handles);
                xot.append_attribute_node(e, nn).expect("build: attr node");
            }
            for c in &a.ch {
                let n = build(xot, c, handles);
                xot.append(e, n).expect("build: append");
            }
            e
        }
        K::Text => {
            let n = xot.new_text(a.val.as_deref().unwrap_or(""));
            handles.push(n);
            n
        }
        K::Comment => {
            let n = xot.new_comment(a.val.as_deref().unwrap_or(""));
            handles.push(n);
            n
        }
        K::Pi => {
            let t = xot.add_name(&a.name);
            let n = xot.new_processing_instruction(t, a.val.as_deref());
            handles.push(n);
            n
        }
        K::Attr => {
            let nsid = xot.add_namespace(&a.ns);
            let name = xot.add_name_ns(&a.name, nsid);
            let n = xot.new_attribute_node(name, a.val.clone().unwrap_or_default());
            handles.push(n);
            n
        }
        K::Ns => {
            let p = xot.add_prefix(&a.name);
            let u = xot.add_namespace(&a.ns);
            let n = xot.new_namespace_node(p, u);
            handles.push(n);
            n
        }
    }
}

pub fn build1(xot: &mut Xot, a: &A) -> Node {
    let mut h = vec![];
    build(xot, a, &mut h)
}

// ---------------------------------------------------------------------------------
// reading back through public navigation

/// Maps real handles to dense indices; unknown handles get a fresh index.
#[derive(Clone, Default)]
pub struct HandleTable {
    pub nodes: Vec<Node>,
    pub index: HashMap<Node, usize>,
}

impl HandleTable {
    pub fn new() -> Self {
        Self::default()
    }
    pub fn from_nodes(nodes: &[Node]) -> Self {
        let mut t = Self::new();
        for n in nodes {
            t.intern(*n);
        }
        t
    }
    pub fn intern(&mut self, n: Node) -> usize {
        if let Some(i) = self.index.get(&n) {
            return *i;
        }
        let i = self.nodes.len();
        self.nodes.push(n);
        self.index.insert(n, i);
        i
    }
    pub fn get(&self, n: Node) -> Option<usize> {
        self.index.get(&n).copied()
    }
    pub fn len(&self) -> usize {
        self.nodes.len()
    }
}

pub fn read_node(xot: &Xot, n: Node) -> A {
    match xot.value(n) {
        Value::Document => A::raw(K::Doc),
        Value::Element(e) => {
            let (l, ns) = xot.name_ns_str(e.name());
            A::el(ns, l)
        }
        Value::Text(t) => A::text(t.get()),
        Value::Comment(c) => A::comment(c.get()),
        Value::ProcessingInstruction(p) => {
            // a PI target is a plain name; should the implementation ever intern it in a namespace, the
            // namespace is read back and shows up as a difference
            let (l, ns) = xot.name_ns_str(p.target());
            let mut a = A::pi(l, p.data());
            a.ns = ns.to_string();
            a
        }
        Value::Attribute(at) => {
            let (l, ns) = xot.name_ns_str(at.name());
            A::attr_node(ns, l, at.value())
        }
        Value::Namespace(nsn) => A::ns_node(xot.prefix_str(nsn.prefix()), xot.namespace_str(nsn.namespace())),
    }
}

/// Downward read-back (child lists, attribute and namespace node lists).
pub fn read(xot: &Xot, n: Node) -> A {
    let mut a = read_node(xot, n);
    if matches!(a.k, K::Doc | K::Elem) {
        for c in xot.namespaces(n).nodes() {
            a.nss.push(read_node(xot, c));
        }
        for c in xot.attributes(n).nodes() {
            a.attrs.push(read_node(xot, c));
        }
        for c in xot.children(n) {
            a.ch.push(read(xot, c));
        }
    }
    a
}

/// Downward read-back that also assigns handle ids (index+1) from `tab`.
pub fn read_ids(xot: &Xot, n: Node, tab: &mut HandleTable) -> A {
    let mut a = read_node(xot, n);
    a.id = tab.intern(n) as u32 + 1;
    if matches!(a.k, K::Doc | K::Elem) {
        for c in xot.namespaces(n).nodes() {
            let mut x = read_node(xot, c);
            x.id = tab.intern(c) as u32 + 1;
            a.nss.push(x);
        }
        for c in xot.attributes(n).nodes() {
            let mut x = read_node(xot, c);
            x.id = tab.intern(c) as u32 + 1;
            a.attrs.push(x);
        }
        for c in xot.children(n) {
            a.ch.push(read_ids(xot, c, tab));
        }
    }
    a
}

/// Collect real handles of a subtree in `walk_all` order.
pub fn handles_of(xot: &Xot, n: Node, out: &mut Vec<Node>) {
    out.push(n);
    if matches!(xot.value(n), Value::Document | Value::Element(_)) {
        for c in xot.namespaces(n).nodes() {
            out.push(c);
        }
        for c in xot.attributes(n).nodes() {
            out.push(c);
        }
        let ch: Vec<Node> = xot.children(n).collect();
        for c in ch {
            handles_of(xot, c, out);
        }
    }
}

pub fn kind_of(xot: &Xot, n: Node) -> K {
    match xot.value(n) {
        Value::Document => K::Doc,
        Value::Element(_) => K::Elem,
        Value::Text(_) => K::Text,
        Value::Comment(_) => K::Comment,
        Value::ProcessingInstruction(_) => K::Pi,
        Value::Attribute(_) => K::Attr,
        Value::Namespace(_) => K::Ns,
    }
}

// ---------------------------------------------------------------------------------
// difference classes (used in failure signatures)

fn char_name(c: Option<char>) -> String {
    match c {
        None => "end".into(),
        Some(c) => format!("U+{:04X}", c as u32),
    }
}

/// class of the first difference between two strings: "U+000D->U+000A", "U+0061->end", …
pub fn str_diff_class(exp: &str, got: &str) -> String {
    let mut e = exp.chars();
    let mut g = got.chars();
    loop {
        let (a, b) = (e.next(), g.next());
        if a != b {
            return format!("{}->{}", char_name(a), char_name(b));
        }
        if a.is_none() {
            return "same".into();
        }
    }
}

/// Class of the first difference between an expected and an observed tree (pre-order), ids ignored.
/// Attribute lists are compared as given (sort first for set semantics).
pub fn diff_class(exp: &A, got: &A) -> Option<String> {
    if exp.k != got.k {
        return Some(format!("kind:{}->{}", exp.k.name(), got.k.name()));
    }
    let k = exp.k.name();
    if exp.ns != got.ns {
        return Some(format!("{}-namespace:{:?}->{:?}", k, exp.ns, got.ns));
    }
    if exp.name != got.name {
        return Some(format!("{}-name", k));
    }
    if exp.val != got.val {
        return Some(match (&exp.val, &got.val) {
            (Some(a), Some(b)) => format!("{}-value:{}", k, str_diff_class(a, b)),
            (None, Some(_)) => format!("{}-value:none->some", k),
            (Some(_), None) => format!("{}-value:some->none", k),
            _ => unreachable!(),
        });
    }
    if exp.nss.len() != got.nss.len() {
        return Some(format!("decl-count:{}->{}", exp.nss.len(), got.nss.len()));
    }
    for (a, b) in exp.nss.iter().zip(got.nss.iter()) {
        if a.name != b.name {
            return Some("decl-prefix".into());
        }
        if a.ns != b.ns {
            return Some(format!("decl-uri:{}", str_diff_class(&a.ns, &b.ns)));
        }
    }
    if exp.attrs.len() != got.attrs.len() {
        return Some(format!("attr-count:{}->{}", exp.attrs.len(), got.attrs.len()));
    }
    for (a, b) in exp.attrs.iter().zip(got.attrs.iter()) {
        if let Some(d) = diff_class(a, b) {
            return Some(d);
        }
    }
    if exp.ch.len() != got.ch.len() {
        // name the first position where kinds diverge
        for (a, b) in exp.ch.iter().zip(got.ch.iter()) {
            if a.k != b.k {
                return Some(format!("children:{}->{}", a.k.name(), b.k.name()));
            }
        }
        let extra = if exp.ch.len() > got.ch.len() { format!("missing-{}", exp.ch[got.ch.len()].k.name()) } else { format!("extra-{}", got.ch[exp.ch.len()].k.name()) };
        return Some(format!("child-count:{}", extra));
    }
    for (a, b) in exp.ch.iter().zip(got.ch.iter()) {
        if let Some(d) = diff_class(a, b) {
            return Some(d);
        }
    }
    None
}
