//! E-SPELL: a renderer that knows the answer. It writes an abstract document as XML text, drawing every
//! lexical choice from a `Chooser` (choice 0 = default spelling) and recording the byte range of everything
//! it writes. The set of choice points of a document does not depend on the choices made, so the
//! k-deviation ball around the default spelling can be enumerated exactly.
use crate::atree::*;
use crate::nsscope::*;

pub struct Chooser {
    /// (choice point index, alternative) pairs, sorted by index
    deviations: Vec<(usize, usize)>,
    /// menu size of every choice point met, in order
    pub points: Vec<u8>,
    /// label of every choice point (for signatures / diagnostics)
    pub labels: Vec<&'static str>,
}

impl Chooser {
    pub fn new(deviations: &[(usize, usize)]) -> Chooser {
        Chooser { deviations: deviations.to_vec(), points: vec![], labels: vec![] }
    }
    pub fn pick(&mut self, menu: usize, label: &'static str) -> usize {
        let idx = self.points.len();
        self.points.push(menu as u8);
        self.labels.push(label);
        match self.deviations.iter().find(|(i, _)| *i == idx) {
            Some((_, alt)) => {
                assert!(*alt < menu, "deviation out of range at point {} ({}): {} >= {}", idx, label, alt, menu);
                *alt
            }
            None => 0,
        }
    }
}

#[derive(Clone, Debug, PartialEq)]
pub enum SpanWhat {
    ElementStart,
    ElementEnd,
    AttributeName(String, String),
    AttributeValue(String, String),
    Text,
    Comment,
    PiTarget,
    PiContent,
}

#[derive(Clone, Debug)]
pub struct SpanRec {
    /// child indices from the document node down to the node
    pub path: Vec<usize>,
    pub what: SpanWhat,
    pub start: usize,
    pub end: usize,
}

#[derive(Clone, Copy, Debug, PartialEq, Eq)]
pub enum Entry {
    Parse,
    ParseWithSpanInfo,
    ParseFragment,
    BytesUtf8,
    BytesUtf8Bom,
    BytesUtf16Le,
    BytesUtf16Be,
    BytesLatin1,
    BytesWindows1252,
}
pub const ENTRIES: [Entry; 9] = [
    Entry::Parse,
    Entry::ParseWithSpanInfo,
    Entry::ParseFragment,
    Entry::BytesUtf8,
    Entry::BytesUtf8Bom,
    Entry::BytesUtf16Le,
    Entry::BytesUtf16Be,
    Entry::BytesLatin1,
    Entry::BytesWindows1252,
];

pub struct Rendered {
    pub text: String,
    pub spans: Vec<SpanRec>,
    pub entry: Entry,
    /// the text starts with an XML declaration (or BOM): not usable with parse_fragment
    pub has_prolog: bool,
    pub points: Vec<u8>,
    pub labels: Vec<&'static str>,
}

struct W<'c> {
    out: String,
    ch: &'c mut Chooser,
    spans: Vec<SpanRec>,
}

fn hex(c: char, upper: bool, zero: bool) -> String {
    let h = if upper { format!("{:X}", c as u32) } else { format!("{:x}", c as u32) };
    format!("&#x{}{};", if zero { "0" } else { "" }, h)
}

impl<'c> W<'c> {
    fn text_char(&mut self, c: char) {
        let cdata = |s: &str| format!("<![CDATA[{}]]>", s);
        let piece: String = match c {
            '<' => ["&lt;".to_string(), "&#60;".into(), hex(c, false, false), hex(c, true, true), cdata("<")][self.ch.pick(5, "text:<")].clone(),
            '&' => ["&amp;".to_string(), "&#38;".into(), hex(c, false, false), cdata("&")][self.ch.pick(4, "text:&")].clone(),
            '>' => {
                let k = self.ch.pick(4, "text:>");
                if k == 0 && self.out.ends_with("]]") {
                    "&gt;".into()
                } else {
                    [">".to_string(), "&gt;".into(), "&#62;".into(), cdata(">")][k].clone()
                }
            }
            '\n' => {
                let k = self.ch.pick(7, "text:LF");
                if k == 0 && self.out.ends_with('\r') {
                    // a literal LF right after a literal CR would fuse into one line end
                    "&#10;".to_string()
                } else {
                    ["\n".to_string(), "\r".into(), "\r\n".into(), "&#10;".into(), cdata("\n"), cdata("\r\n"), cdata("\r")][k].clone()
                }
            }
            '\r' => ["&#13;".to_string(), "&#xD;".into(), "&#x0d;".into()][self.ch.pick(3, "text:CR")].clone(),
            '\t' => ["\t".to_string(), "&#9;".into(), cdata("\t")][self.ch.pick(3, "text:TAB")].clone(),
            '"' => ["\"".to_string(), "&quot;".into(), "&#34;".into()][self.ch.pick(3, "text:quote")].clone(),
            '\'' => ["'".to_string(), "&apos;".into(), "&#39;".into()][self.ch.pick(3, "text:quote")].clone(),
            ']' => ["]".to_string(), "&#93;".into(), cdata("]")][self.ch.pick(3, "text:]")].clone(),
            c => [c.to_string(), format!("&#{};", c as u32), hex(c, true, false), cdata(&c.to_string())][self.ch.pick(4, "text:char")].clone(),
        };
        self.out.push_str(&piece);
    }

    /// returns (start, end) of the text run as the span convention of xot defines it:
    /// from the start of the first part's content to the end of the last part's content
    fn text(&mut self, s: &str) -> (usize, usize) {
        // an empty CDATA section contributes no character data and is not a part of the run:
        // none / before the run / after it / after its first character
        let empty = self.ch.pick(4, "text:empty-cdata");
        if empty == 1 {
            self.out.push_str("<![CDATA[]]>");
        }
        let st = self.out.len();
        for (i, c) in s.chars().enumerate() {
            self.text_char(c);
            if empty == 3 && i == 0 && s.chars().count() > 1 {
                self.out.push_str("<![CDATA[]]>");
            }
        }
        let raw = &self.out[st..];
        let mut start = st;
        let mut end = self.out.len();
        if raw.starts_with("<![CDATA[") {
            start += 9;
        }
        if raw.ends_with("]]>") {
            end -= 3;
        }
        if empty == 2 || (empty == 3 && s.chars().count() <= 1) {
            self.out.push_str("<![CDATA[]]>");
        }
        (start, end)
    }

    fn attr_char(&mut self, c: char, quote: char) {
        let piece: String = match c {
            '<' => ["&lt;".to_string(), "&#60;".into()][self.ch.pick(2, "attr:<")].clone(),
            '&' => ["&amp;".to_string(), "&#38;".into()][self.ch.pick(2, "attr:&")].clone(),
            '"' | '\'' => {
                let ent = if c == '"' { "&quot;" } else { "&apos;" };
                let k = self.ch.pick(3, "attr:quote");
                match k {
                    0 => {
                        if c == quote {
                            ent.to_string()
                        } else {
                            c.to_string()
                        }
                    }
                    1 => ent.to_string(),
                    _ => format!("&#{};", c as u32),
                }
            }
            ' ' => {
                let k = self.ch.pick(6, "attr:space");
                if k == 2 && self.out.ends_with('\r') {
                    // CR followed by LF is one line end, i.e. one space
                    " ".to_string()
                } else {
                    [" ".to_string(), "\t".into(), "\n".into(), "\r".into(), "\r\n".into(), "&#32;".into()][k].clone()
                }
            }
            '\t' | '\n' | '\r' => [format!("&#{};", c as u32), hex(c, true, false)][self.ch.pick(2, "attr:ws-ref")].clone(),
            '>' => [">".to_string(), "&gt;".into()][self.ch.pick(2, "attr:>")].clone(),
            c => [c.to_string(), format!("&#{};", c as u32), hex(c, false, false)][self.ch.pick(3, "attr:char")].clone(),
        };
        self.out.push_str(&piece);
    }

    fn qname(&mut self, scope: &Scope, ns: &str, local: &str, is_attr: bool) -> String {
        // every prefix bound to the namespace and usable for this kind of name
        let mut cands: Vec<String> = vec![];
        if ns.is_empty() {
            cands.push(String::new());
        } else {
            if !is_attr && scope.get("").map(|u| u == ns).unwrap_or(false) {
                cands.push(String::new());
            }
            for (p, u) in scope {
                if !p.is_empty() && u == ns {
                    cands.push(p.clone());
                }
            }
        }
        assert!(!cands.is_empty(), "abstract document not expressible: {{{}}}{}", ns, local);
        let k = if cands.len() > 1 { self.ch.pick(cands.len(), "prefix-choice") } else { 0 };
        if cands[k].is_empty() {
            local.to_string()
        } else {
            format!("{}:{}", cands[k], local)
        }
    }

    fn element(&mut self, e: &A, outer: &Scope, path: &mut Vec<usize>) {
        let scope = enter(outer, e);
        self.out.push('<');
        let qn = self.qname(&scope, &e.ns, &e.name, false);
        let st = self.out.len();
        self.out.push_str(&qn);
        self.spans.push(SpanRec { path: path.clone(), what: SpanWhat::ElementStart, start: st, end: self.out.len() });
        // interleaving of declarations and attributes (each list keeps its order)
        let (nd, na) = (e.nss.len(), e.attrs.len());
        let mut orders: Vec<Vec<bool>> = vec![]; // true = next declaration, false = next attribute
        fn gen(nd: usize, na: usize, cur: &mut Vec<bool>, out: &mut Vec<Vec<bool>>) {
            if nd == 0 && na == 0 {
                out.push(cur.clone());
                return;
            }
            if nd > 0 {
                cur.push(true);
                gen(nd - 1, na, cur, out);
                cur.pop();
            }
            if na > 0 {
                cur.push(false);
                gen(nd, na - 1, cur, out);
                cur.pop();
            }
        }
        gen(nd, na, &mut vec![], &mut orders);
        let order = if orders.len() > 1 { orders[self.ch.pick(orders.len(), "attribute-interleaving")].clone() } else { orders[0].clone() };
        // every declaration and attribute is rendered (and draws its choices) in canonical order first;
        // the interleaving only decides the order in which the fragments are written
        let mut frags: Vec<(bool, String, Vec<(SpanWhat, usize, usize)>)> = vec![];
        let main_out = std::mem::take(&mut self.out);
        for idx in 0..(nd + na) {
            let is_decl = idx < nd;
            self.out = String::new();
            let mut rel: Vec<(SpanWhat, usize, usize)> = vec![];
            let sep = [" ", "  ", "\n", "\t"][self.ch.pick(4, "ws-between-attributes")];
            self.out.push_str(sep);
            let (name_ns, name, value, is_id): (Option<(String, String)>, String, String, bool) = if is_decl {
                let d = &e.nss[idx];
                (None, if d.name.is_empty() { "xmlns".to_string() } else { format!("xmlns:{}", d.name) }, d.ns.clone(), false)
            } else {
                let a = &e.attrs[idx - nd];
                let q = self.qname(&scope, &a.ns, &a.name, true);
                (Some((a.ns.clone(), a.name.clone())), q, a.val.clone().unwrap_or_default(), a.ns == XML_NS && a.name == "id")
            };
            let nst = self.out.len();
            self.out.push_str(&name);
            if let Some((ns, l)) = &name_ns {
                rel.push((SpanWhat::AttributeName(ns.clone(), l.clone()), nst, self.out.len()));
            }
            let eq = ["=", " = ", "=\n"][self.ch.pick(3, "ws-around-equals")];
            self.out.push_str(eq);
            let quote = ['"', '\''][self.ch.pick(2, "quote-style")];
            self.out.push(quote);
            let vst = self.out.len();
            // xml:id: extra literal spaces that normalisation must remove (written without choice points,
            // so that the set of choice points stays the same)
            let pad = if is_id { self.ch.pick(5, "xml:id-padding") } else { 0 };
            self.out.push_str(["", " ", "", "  ", ""][pad]);
            for c in value.chars() {
                if pad == 4 && c == ' ' {
                    self.out.push_str("  ");
                }
                self.attr_char(c, quote);
            }
            self.out.push_str(["", "", "  ", " ", ""][pad]);
            if let Some((ns, l)) = &name_ns {
                rel.push((SpanWhat::AttributeValue(ns.clone(), l.clone()), vst, self.out.len()));
            }
            self.out.push(quote);
            frags.push((is_decl, std::mem::take(&mut self.out), rel));
        }
        self.out = main_out;
        let (mut di, mut ai) = (0, 0);
        for is_decl in order {
            let f = if is_decl {
                di += 1;
                &frags[di - 1]
            } else {
                ai += 1;
                &frags[nd + ai - 1]
            };
            let base = self.out.len();
            self.out.push_str(&f.1);
            for (w, a, b) in &f.2 {
                self.spans.push(SpanRec { path: path.clone(), what: w.clone(), start: base + a, end: base + b });
            }
        }
        let pre = ["", " ", "\n"][self.ch.pick(3, "ws-before-tag-end")];
        self.out.push_str(pre);
        // drawn unconditionally: the set of choice points must not depend on the choices
        let end_ws = ["", " "][self.ch.pick(2, "ws-in-end-tag")];
        let form = if e.ch.is_empty() { self.ch.pick(3, "empty-element-form") } else { 1 };
        if e.ch.is_empty() && form == 0 {
            let st = self.out.len();
            self.out.push_str("/>");
            self.spans.push(SpanRec { path: path.clone(), what: SpanWhat::ElementEnd, start: st, end: self.out.len() });
            return;
        }
        self.out.push('>');
        if form == 2 {
            // no character data at all: the element stays childless
            self.out.push_str("<![CDATA[]]>");
        }
        for (i, c) in e.ch.iter().enumerate() {
            path.push(i);
            self.node(c, &scope, path);
            path.pop();
        }
        let st = self.out.len();
        self.out.push_str("</");
        self.out.push_str(&qn);
        self.out.push_str(end_ws);
        self.out.push('>');
        self.spans.push(SpanRec { path: path.clone(), what: SpanWhat::ElementEnd, start: st, end: self.out.len() });
    }

    fn node(&mut self, a: &A, scope: &Scope, path: &mut Vec<usize>) {
        match a.k {
            K::Elem => self.element(a, scope, path),
            K::Text => {
                let (s, e) = self.text(a.val.as_deref().unwrap_or(""));
                self.spans.push(SpanRec { path: path.clone(), what: SpanWhat::Text, start: s, end: e });
            }
            K::Comment => {
                self.out.push_str("<!--");
                let st = self.out.len();
                self.out.push_str(a.val.as_deref().unwrap_or(""));
                self.spans.push(SpanRec { path: path.clone(), what: SpanWhat::Comment, start: st, end: self.out.len() });
                self.out.push_str("-->");
            }
            K::Pi => {
                self.out.push_str("<?");
                let st = self.out.len();
                self.out.push_str(&a.name);
                self.spans.push(SpanRec { path: path.clone(), what: SpanWhat::PiTarget, start: st, end: self.out.len() });
                if let Some(d) = &a.val {
                    self.out.push_str([" ", "  ", "\t", "\n"][self.ch.pick(4, "ws-after-pi-target")]);
                    let st = self.out.len();
                    self.out.push_str(d);
                    self.spans.push(SpanRec { path: path.clone(), what: SpanWhat::PiContent, start: st, end: self.out.len() });
                }
                self.out.push_str("?>");
            }
            _ => {}
        }
    }
}

/// can every character be written in ISO-8859-1 and does windows-1252 agree on it?
pub fn latin1_safe(s: &str) -> bool {
    s.chars().all(|c| (c as u32) < 0x80 || ((c as u32) >= 0xA0 && (c as u32) <= 0xFF))
}

/// Render `doc` (a document node with one element and optional top-level comments / PIs).
pub fn render(doc: &A, deviations: &[(usize, usize)]) -> Rendered {
    let mut ch = Chooser::new(deviations);
    let entry = ENTRIES[ch.pick(ENTRIES.len(), "entry-point")];
    let prolog = ch.pick(8, "prolog");
    let mut w = W { out: String::new(), ch: &mut ch, spans: vec![] };
    let enc_decl = match entry {
        Entry::BytesLatin1 => Some("ISO-8859-1"),
        Entry::BytesWindows1252 => Some("windows-1252"),
        _ => None,
    };
    let has_prolog;
    if let Some(enc) = enc_decl {
        // the declaration is needed; its spelling still varies (white space around '=', quote style, line ends)
        match prolog {
            2 | 5 => w.out.push_str(&format!("<?xml version = \"1.0\" encoding = \"{}\" ?>", enc)),
            3 | 6 => w.out.push_str(&format!("<?xml\tversion='1.0'\nencoding\t=\n'{}'?>", enc)),
            _ => w.out.push_str(&format!("<?xml version=\"1.0\" encoding=\"{}\"?>", enc)),
        }
        has_prolog = true;
    } else {
        // an encoding declaration that contradicts UTF-16 bytes is not a spelling of the document
        let utf16 = matches!(entry, Entry::BytesUtf16Le | Entry::BytesUtf16Be);
        let prolog = if utf16 && (prolog == 2 || prolog == 4 || prolog == 7) { 1 } else { prolog };
        match prolog {
            1 => w.out.push_str("<?xml version=\"1.0\"?>"),
            2 => w.out.push_str("<?xml version='1.0' encoding='UTF-8'?>"),
            3 => w.out.push_str("<?xml version=\"1.0\" standalone=\"yes\"?>"),
            4 => w.out.push_str("<?xml version=\"1.0\" encoding=\"utf-8\" standalone='no' ?>"),
            5 => w.out.push_str("<?xml\tversion=\"1.0\"?>"),
            6 => w.out.push_str("<?xml\nversion = '1.0'\n?>"),
            7 => w.out.push_str("<?xml version=\"1.0\" encoding = 'UTF-8' standalone = \"yes\"?>"),
            _ => {}
        }
        has_prolog = prolog != 0;
    }
    let scope = base_scope();
    let mut path = vec![];
    for (i, c) in doc.ch.iter().enumerate() {
        let sep = ["", "\n", " \n"][w.ch.pick(3, "ws-between-top-level-items")];
        if has_prolog || i > 0 {
            w.out.push_str(sep);
        }
        path.push(i);
        w.node(c, &scope, &mut path);
        path.pop();
    }
    w.out.push_str(["", "\n"][w.ch.pick(2, "trailing-newline")]);
    let (text, spans) = (w.out, w.spans);
    Rendered { text, spans, entry, has_prolog, points: ch.points, labels: ch.labels }
}

/// windows-1252 (WHATWG index): the 27 characters that live in 0x80..=0x9F, in byte order (0 = the byte maps to the
/// C1 control of the same number)
pub const CP1252_HIGH: [u32; 32] = [
    0x20AC, 0, 0x201A, 0x0192, 0x201E, 0x2026, 0x2020, 0x2021, 0x02C6, 0x2030, 0x0160, 0x2039, 0x0152, 0, 0x017D, 0, 0, 0x2018, 0x2019, 0x201C, 0x201D, 0x2022, 0x2013, 0x2014, 0x02DC, 0x2122, 0x0161, 0x203A,
    0x0153, 0, 0x017E, 0x0178,
];

/// the character a windows-1252 byte denotes
pub fn cp1252_char(b: u8) -> char {
    if (0x80..=0x9F).contains(&b) && CP1252_HIGH[(b - 0x80) as usize] != 0 {
        char::from_u32(CP1252_HIGH[(b - 0x80) as usize]).unwrap()
    } else {
        b as char
    }
}

fn cp1252_byte(c: char) -> Option<u8> {
    let u = c as u32;
    if let Some(i) = CP1252_HIGH.iter().position(|x| *x == u && u != 0) {
        return Some(0x80 + i as u8);
    }
    if u < 0x80 || (0xA0..=0xFF).contains(&u) {
        Some(u as u8)
    } else {
        None
    }
}

/// bytes for the byte-oriented entry points
pub fn encode(text: &str, entry: Entry) -> Option<Vec<u8>> {
    match entry {
        Entry::BytesUtf8 => Some(text.as_bytes().to_vec()),
        Entry::BytesUtf8Bom => {
            let mut v = vec![0xEF, 0xBB, 0xBF];
            v.extend_from_slice(text.as_bytes());
            Some(v)
        }
        Entry::BytesUtf16Le => {
            let mut v = vec![0xFF, 0xFE];
            for u in text.encode_utf16() {
                v.extend_from_slice(&u.to_le_bytes());
            }
            Some(v)
        }
        Entry::BytesUtf16Be => {
            let mut v = vec![0xFE, 0xFF];
            for u in text.encode_utf16() {
                v.extend_from_slice(&u.to_be_bytes());
            }
            Some(v)
        }
        Entry::BytesLatin1 => {
            if !latin1_safe(text) {
                return None;
            }
            Some(text.chars().map(|c| c as u32 as u8).collect())
        }
        Entry::BytesWindows1252 => text.chars().map(cp1252_byte).collect(),
        _ => None,
    }
}

/// All deviation sets with at most `k` deviations for the given menus (the empty set first, then by size).
pub fn ball(points: &[u8], k: usize) -> Vec<Vec<(usize, usize)>> {
    fn rec(points: &[u8], from: usize, left: usize, cur: &mut Vec<(usize, usize)>, out: &mut Vec<Vec<(usize, usize)>>) {
        if left == 0 {
            out.push(cur.clone());
            return;
        }
        for i in from..points.len() {
            for a in 1..points[i] as usize {
                cur.push((i, a));
                rec(points, i + 1, left - 1, cur, out);
                cur.pop();
            }
        }
    }
    let mut out = vec![];
    for size in 0..=k {
        rec(points, 0, size, &mut vec![], &mut out);
    }
    out
}
