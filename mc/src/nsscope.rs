//! `NsScope` — nearest-declaration-wins resolver over abstract trees (XML Namespaces rules),
//! and the namespace-layout enumerator shared by C01(c), C09, C10, C12, C15, C16.
use crate::atree::*;
use std::collections::BTreeMap;

pub const X: &str = "urn:x";
pub const Y: &str = "urn:y";

/// prefix -> URI; never contains a binding to the empty URI
pub type Scope = BTreeMap<String, String>;

pub fn base_scope() -> Scope {
    let mut s = Scope::new();
    s.insert("xml".into(), XML_NS.into());
    s
}

/// scope inside element `e` given the scope outside it
pub fn enter(outer: &Scope, e: &A) -> Scope {
    let mut s = outer.clone();
    for d in &e.nss {
        if d.ns.is_empty() {
            // xmlns="" (and the API's equivalent for a prefix) takes the binding away; the xml prefix cannot lose its
            // binding (statement of C09: "the xml prefix always bound")
            if d.name != "xml" {
                s.remove(&d.name);
            }
        } else {
            s.insert(d.name.clone(), d.ns.clone());
        }
    }
    s
}

/// can an element name in namespace `ns` be written in this scope (without adding declarations)?
pub fn elem_expressible(scope: &Scope, ns: &str) -> bool {
    if ns.is_empty() {
        // under a default namespace the serialiser undeclares it on the element's own start tag (xmlns="")
        true
    } else {
        scope.values().any(|u| u == ns)
    }
}
/// can an attribute name in namespace `ns` be written in this scope?
pub fn attr_expressible(scope: &Scope, ns: &str) -> bool {
    ns.is_empty() || scope.iter().any(|(p, u)| !p.is_empty() && u == ns)
}

/// every element / attribute name of the subtree is expressible with the declarations in scope
pub fn serialisable(a: &A, outer: &Scope) -> bool {
    match a.k {
        K::Elem => {
            let s = enter(outer, a);
            if !elem_expressible(&s, &a.ns) {
                return false;
            }
            if a.ns.is_empty() && a.nss.iter().any(|d| d.name.is_empty() && !d.ns.is_empty()) {
                // its own start tag would put it into that namespace: no spelling exists
                return false;
            }
            if !a.attrs.iter().all(|at| attr_expressible(&s, &at.ns)) {
                return false;
            }
            a.ch.iter().all(|c| serialisable(c, &s))
        }
        K::Doc => a.ch.iter().all(|c| serialisable(c, outer)),
        _ => true,
    }
}

/// resolve a qualified name as written (prefix, local) in a scope; `is_attr` selects the attribute rule
pub fn resolve(scope: &Scope, prefix: &str, is_attr: bool) -> Option<String> {
    if prefix.is_empty() {
        if is_attr {
            Some(String::new())
        } else {
            Some(scope.get("").cloned().unwrap_or_default())
        }
    } else {
        scope.get(prefix).cloned()
    }
}

// ------------------------------------------------------------------------------------
// namespace layouts

#[derive(Clone, Copy, Debug, PartialEq, Eq)]
pub struct ElemSpec {
    pub dflt: usize, // 0 none, 1 X, 2 Y, 3 ""
    pub p: usize,    // 0 none, 1 X, 2 Y
    pub q: usize,    // 0 none, 1 X, 2 Y
    pub name: usize, // 0 no namespace, 1 X, 2 Y
    pub attr: usize, // 0 absent, 1 no-namespace k, 2 {X}k, 3 {Y}k, 4 xml:space
}

pub const SPEC_RADICES: [usize; 5] = [4, 3, 3, 3, 5];
pub const SPEC_TOTAL: u64 = 4 * 3 * 3 * 3 * 5;

pub fn spec_from(i: u64) -> ElemSpec {
    let d = crate::gen::mixed(&SPEC_RADICES, i);
    ElemSpec { dflt: d[0], p: d[1], q: d[2], name: d[3], attr: d[4] }
}

fn uri(i: usize) -> &'static str {
    match i {
        1 => X,
        2 => Y,
        _ => "",
    }
}

pub fn elem_from(spec: &ElemSpec, local: &str) -> A {
    let mut e = A::el(uri(spec.name), local);
    match spec.dflt {
        1 => e = e.decl("", X),
        2 => e = e.decl("", Y),
        3 => e = e.decl("", ""),
        _ => {}
    }
    if spec.p > 0 {
        e = e.decl("p", uri(spec.p));
    }
    if spec.q > 0 {
        e = e.decl("q", uri(spec.q));
    }
    // the attribute shares its local name with the element that carries it (and, in chains, with other
    // elements): name tables keyed by local name only, or shared between elements and attributes, show up
    match spec.attr {
        1 => e = e.attr("", local, "v"),
        2 => e = e.attr(X, local, "v"),
        3 => e = e.attr(Y, local, "v"),
        4 => e = e.attr(XML_NS, "space", "default"),
        _ => {}
    }
    e
}

/// Shapes of up to 3 elements: 0 = single, 1 = chain of 2, 2 = chain of 3, 3 = fork (parent with 2 children)
pub fn layout_tree(shape: usize, specs: &[ElemSpec]) -> A {
    match shape {
        0 => elem_from(&specs[0], "a"),
        1 => elem_from(&specs[0], "a").child(elem_from(&specs[1], "b")),
        2 => elem_from(&specs[0], "a").child(elem_from(&specs[1], "b").child(elem_from(&specs[2], "c"))),
        3 => elem_from(&specs[0], "a").child(elem_from(&specs[1], "b")).child(elem_from(&specs[2], "c")),
        // root > r > [a > x, b]: a subtree (r) with a declaring branch, a declaration-less element inside it, and a
        // later sibling that depends on bindings from above the subtree
        _ => elem_from(&specs[0], "a").child(elem_from(&specs[1], "b").child(elem_from(&specs[2], "c").child(elem_from(&specs[3], "d"))).child(elem_from(&specs[4], "e"))),
    }
}
pub fn shape_elems(shape: usize) -> usize {
    match shape {
        0 => 1,
        1 => 2,
        _ => 3,
    }
}

/// Reduced per-element menu used at depth 3 in the quick tier (keeps every mechanism: default,
/// shadowing, undeclaration, two prefixes for one namespace, attribute needing a prefix).
pub fn reduced_specs() -> Vec<ElemSpec> {
    reduced_specs_q(&[0, 1])
}
/// smaller menu (q never declared) for the quick tier's 3-element layouts
/// 12 specs for the five-element shape: declaration in {none, p=X, p=Y, default=X} x element in {no namespace, X},
/// plus four with an attribute in X
pub fn tiny_specs() -> Vec<ElemSpec> {
    let mut v = vec![];
    for (dflt, p) in [(0usize, 0usize), (0, 1), (0, 2), (1, 0)] {
        for name in 0..2 {
            v.push(ElemSpec { dflt, p, q: 0, name, attr: 0 });
        }
    }
    for (dflt, p) in [(0usize, 0usize), (0, 1)] {
        for name in 0..2 {
            v.push(ElemSpec { dflt, p, q: 0, name, attr: 2 });
        }
    }
    v
}

pub fn small_specs() -> Vec<ElemSpec> {
    reduced_specs_q(&[0])
}
fn reduced_specs_q(qs: &[usize]) -> Vec<ElemSpec> {
    let mut v = vec![];
    for dflt in 0..4 {
        for p in 0..3 {
            for &q in qs {
                for name in 0..3 {
                    for attr in [0usize, 2] {
                        v.push(ElemSpec { dflt, p, q, name, attr });
                    }
                }
            }
        }
    }
    v
}

/// in-scope bindings at every element, in walk order of elements (pre-order)
pub fn scopes_preorder(a: &A, outer: &Scope, out: &mut Vec<Scope>) {
    match a.k {
        K::Elem => {
            let s = enter(outer, a);
            out.push(s.clone());
            for c in &a.ch {
                scopes_preorder(c, &s, out);
            }
        }
        K::Doc => {
            for c in &a.ch {
                scopes_preorder(c, outer, out);
            }
        }
        _ => {}
    }
}
