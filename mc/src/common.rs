//! Run context: tiers, panic capture, failure aggregation by signature, known findings,
//! replay files, evidence files, exit codes.
use serde::{de::DeserializeOwned, Deserialize, Serialize};
use serde_json::{json, Value as J};
use std::cell::RefCell;
use std::collections::{BTreeMap, HashSet};
use std::panic::{catch_unwind, AssertUnwindSafe};
use std::sync::atomic::{AtomicBool, Ordering};
use std::time::Instant;

/// root of the verification tree: $VERIF_DIR, or the current directory if it holds a MANIFEST.json
/// (the driver cds into it; a snapshot run then writes into the snapshot, not into /verif), else /verif
pub fn verif_dir() -> String {
    if let Ok(d) = std::env::var("VERIF_DIR") {
        return d;
    }
    if std::path::Path::new("MANIFEST.json").exists() {
        if let Ok(d) = std::env::current_dir() {
            return d.to_string_lossy().to_string();
        }
    }
    "/verif".to_string()
}

#[derive(Clone, Copy, PartialEq, Eq, Debug)]
pub enum Tier {
    Quick,
    Thorough,
}
impl Tier {
    pub fn name(self) -> &'static str {
        match self {
            Tier::Quick => "quick",
            Tier::Thorough => "thorough",
        }
    }
    pub fn pick<T>(self, q: T, t: T) -> T {
        match self {
            Tier::Quick => q,
            Tier::Thorough => t,
        }
    }
}

// ------------------------------------------------------------------------------------
// panic capture

thread_local! {
    static LAST_PANIC: RefCell<Option<String>> = const { RefCell::new(None) };
    static IN_CATCH: std::cell::Cell<u32> = const { std::cell::Cell::new(0) };
}

pub fn install_panic_hook() {
    std::panic::set_hook(Box::new(|info| {
        let msg = if let Some(s) = info.payload().downcast_ref::<&str>() {
            s.to_string()
        } else if let Some(s) = info.payload().downcast_ref::<String>() {
            s.clone()
        } else {
            "<non-string panic>".to_string()
        };
        let loc = info.location().map(|l| format!("{}:{}", l.file(), l.line())).unwrap_or_default();
        if IN_CATCH.with(|c| c.get()) == 0 {
            // a panic of the machinery itself: never silent
            eprintln!("MACHINERY: panic outside a guarded evaluation: {} @ {}", msg, loc);
        }
        LAST_PANIC.with(|p| *p.borrow_mut() = Some(format!("{} @ {}", msg, loc)));
    }));
}

/// Run `f`, turning a panic into `Err(message @ file:line)`.
pub fn catch<R>(f: impl FnOnce() -> R) -> Result<R, String> {
    IN_CATCH.with(|c| c.set(c.get() + 1));
    let r = catch_unwind(AssertUnwindSafe(f));
    IN_CATCH.with(|c| c.set(c.get() - 1));
    match r {
        Ok(r) => Ok(r),
        Err(_) => Err(LAST_PANIC.with(|p| p.borrow_mut().take()).unwrap_or_else(|| "<panic>".into())),
    }
}

/// Reduce a panic message to a stable class (strip numbers / handles), for signatures.
pub fn panic_class(msg: &str) -> String {
    // keep the text before " @ ", and the file name (not the line) after it
    let (text, loc) = match msg.rsplit_once(" @ ") {
        Some((t, l)) => (t, l),
        None => (msg, ""),
    };
    let file = loc.rsplit('/').next().unwrap_or("").split(':').next().unwrap_or("");
    let mut t: String = text.chars().map(|c| if c.is_ascii_digit() { '#' } else { c }).collect();
    while t.contains("##") {
        t = t.replace("##", "#");
    }
    if t.len() > 80 {
        let mut cut = 80;
        while !t.is_char_boundary(cut) {
            cut -= 1;
        }
        t.truncate(cut);
    }
    format!("{} [{}]", t, file)
}

// ------------------------------------------------------------------------------------
// failures

#[derive(Clone, Debug, Serialize, Deserialize, PartialEq, Eq)]
pub struct Fail {
    /// stable signature: clause + distinguishing feature (DESIGN §2.8)
    pub sig: String,
    /// human-readable expected/observed
    pub detail: String,
}
impl Fail {
    pub fn new(sig: impl Into<String>, detail: impl Into<String>) -> Fail {
        Fail { sig: sig.into(), detail: detail.into() }
    }
}

#[derive(Clone, Debug)]
pub struct FailRec {
    pub count: u64,
    pub case: J,
    pub detail: String,
    pub key: (usize, String),
}

/// Per-thread statistics, merged deterministically.
#[derive(Default, Clone)]
pub struct Stats {
    pub evals: u64,
    pub counters: BTreeMap<&'static str, u64>,
    pub distinct: HashSet<u64>,
    pub samples: Vec<J>,
    pub fails: BTreeMap<String, FailRec>,
    pub capped: bool,
}

impl Stats {
    pub fn bump(&mut self, k: &'static str) {
        *self.counters.entry(k).or_insert(0) += 1;
    }
    pub fn add(&mut self, k: &'static str, n: u64) {
        *self.counters.entry(k).or_insert(0) += n;
    }
    pub fn outcome<H: std::hash::Hash>(&mut self, h: &H) {
        use std::hash::Hasher;
        let mut s = std::collections::hash_map::DefaultHasher::new();
        h.hash(&mut s);
        self.distinct.insert(s.finish());
    }
    pub fn sample(&mut self, j: impl FnOnce() -> J) {
        if self.samples.len() < 4 {
            self.samples.push(j());
        }
    }
    pub fn fail<C: Serialize>(&mut self, case: &C, f: Fail) {
        let cj = serde_json::to_value(case).unwrap_or(J::Null);
        let s = cj.to_string();
        let key = (s.len(), s);
        match self.fails.get_mut(&f.sig) {
            Some(r) => {
                r.count += 1;
                if key < r.key {
                    r.key = key;
                    r.case = cj;
                    r.detail = f.detail;
                }
            }
            None => {
                self.fails.insert(f.sig, FailRec { count: 1, case: cj, detail: f.detail, key });
            }
        }
    }
    pub fn merge(mut self, o: Stats) -> Stats {
        self.evals += o.evals;
        for (k, v) in o.counters {
            *self.counters.entry(k).or_insert(0) += v;
        }
        if self.distinct.len() < o.distinct.len() {
            let mut d = o.distinct;
            d.extend(self.distinct.drain());
            self.distinct = d;
        } else {
            self.distinct.extend(o.distinct);
        }
        for s in o.samples {
            if self.samples.len() < 4 {
                self.samples.push(s);
            }
        }
        for (sig, r) in o.fails {
            match self.fails.get_mut(&sig) {
                Some(m) => {
                    m.count += r.count;
                    if r.key < m.key {
                        m.key = r.key;
                        m.case = r.case;
                        m.detail = r.detail;
                    }
                }
                None => {
                    self.fails.insert(sig, r);
                }
            }
        }
        self.capped |= o.capped;
        self
    }
}

// ------------------------------------------------------------------------------------
// known findings

#[derive(Clone, Debug, Deserialize)]
pub struct KnownFinding {
    pub id: String,
    pub property: String,
    pub status: String, // "open" | "fixed"
    #[serde(default)]
    pub signatures: Vec<String>,
    #[serde(default)]
    pub what: String,
    #[serde(default)]
    pub witness: J,
    #[serde(default)]
    pub commit: String,
}

pub fn load_known(prop: &str) -> Vec<KnownFinding> {
    let p = format!("{}/known_findings.json", verif_dir());
    let Ok(s) = std::fs::read_to_string(&p) else { return vec![] };
    let v: J = serde_json::from_str(&s).unwrap_or_else(|e| {
        eprintln!("MACHINERY: cannot parse {}: {}", p, e);
        std::process::exit(2)
    });
    let mut out = vec![];
    for f in v.get("findings").and_then(|f| f.as_array()).cloned().unwrap_or_default() {
        let k: KnownFinding = serde_json::from_value(f).unwrap_or_else(|e| {
            eprintln!("MACHINERY: bad finding entry: {}", e);
            std::process::exit(2)
        });
        if k.property == prop {
            out.push(k);
        }
    }
    out
}

// ------------------------------------------------------------------------------------
// context

pub struct Ctx {
    pub prop: &'static str,
    pub tier: Tier,
    pub level: &'static str,
    pub start: Instant,
    pub budget_s: f64,
    pub expired_flag: AtomicBool,
    pub list_sigs: bool,
}

pub static STOP: AtomicBool = AtomicBool::new(false);

impl Ctx {
    pub fn new(prop: &'static str, tier: Tier, level: &'static str) -> Ctx {
        let budget_s = std::env::var("VERIF_BUDGET_S").ok().and_then(|s| s.parse().ok()).unwrap_or(match tier {
            Tier::Quick => 240.0,
            Tier::Thorough => 3000.0,
        });
        watch_start(prop, tier);
        Ctx {
            prop,
            tier,
            level,
            start: Instant::now(),
            budget_s,
            expired_flag: AtomicBool::new(false),
            list_sigs: std::env::var("VERIF_LIST_SIGS").is_ok(),
        }
    }
    pub fn elapsed(&self) -> f64 {
        self.start.elapsed().as_secs_f64()
    }
    /// wall-clock cap: engines poll this and stop expanding (reported as a cap, never as a verdict)
    pub fn expired(&self) -> bool {
        if self.expired_flag.load(Ordering::Relaxed) {
            return true;
        }
        if self.elapsed() > self.budget_s {
            self.expired_flag.store(true, Ordering::Relaxed);
            return true;
        }
        false
    }

    /// Classify failures, write replay files + evidence, print the verdict lines, return exit code.
    pub fn finish(&self, stats: Stats, mut coverage: J, assumptions: Vec<String>) -> i32 {
        let known = load_known(self.prop);
        let mut known_met: BTreeMap<String, (u64, String)> = BTreeMap::new();
        let mut violations: Vec<(String, FailRec)> = vec![];
        for (sig, rec) in &stats.fails {
            let mut matched = false;
            for k in &known {
                if k.status == "open" && k.signatures.iter().any(|s| s == sig) {
                    let e = known_met.entry(k.id.clone()).or_insert((0, k.what.clone()));
                    e.0 += rec.count;
                    matched = true;
                    break;
                }
            }
            if !matched {
                violations.push((sig.clone(), rec.clone()));
            }
        }
        if self.list_sigs {
            for (sig, rec) in &stats.fails {
                println!("SIG count={} sig={} | {} | case={}", rec.count, sig, rec.detail, rec.case);
            }
        }
        for (id, (n, what)) in &known_met {
            println!("KNOWN-FINDING: property={} {} {} (met {} times)", self.prop, id, what, n);
        }
        for k in &known {
            if k.status == "open" && !known_met.contains_key(&k.id) {
                println!("NOTE: open finding {} not met in this run ({})", k.id, k.what);
            }
        }
        let verif = verif_dir();
        let _ = std::fs::create_dir_all(format!("{}/replays", verif));
        let mut vio_json = vec![];
        // many signatures usually have one cause: the 20 smallest witnesses are written out, the rest is counted
        let mut order: Vec<usize> = (0..violations.len()).collect();
        order.sort_by(|a, b| violations[*a].1.key.cmp(&violations[*b].1.key));
        let shown: Vec<usize> = order.into_iter().take(20).collect();
        if violations.len() > shown.len() {
            println!("({} further violation signatures are not written out; all are counted in the evidence file)", violations.len() - shown.len());
        }
        for (i, (sig, rec)) in shown.iter().map(|i| &violations[*i]).enumerate() {
            let path = format!("{}/replays/{}-{}-{}.json", verif, self.prop, self.tier.name(), i);
            let body = json!({"property": self.prop, "signature": sig, "detail": rec.detail, "count": rec.count, "case": rec.case});
            let _ = std::fs::write(&path, serde_json::to_string_pretty(&body).unwrap());
            println!("VIOLATION property={} replay={}", self.prop, path);
            println!("  signature: {}", sig);
            println!("  detail: {}", rec.detail);
            vio_json.push(json!({"signature": sig, "count": rec.count, "replay": path, "detail": rec.detail}));
        }
        // evidence
        let cov = coverage.as_object_mut().expect("coverage must be an object");
        cov.entry("evaluations").or_insert(json!(stats.evals));
        cov.entry("distinct_nontrivial").or_insert(json!(stats.distinct.len()));
        cov.entry("samples").or_insert(json!(stats.samples));
        let exhaustive = !stats.capped && !self.expired_flag.load(Ordering::Relaxed);
        if !exhaustive {
            cov.insert("exhaustive".into(), json!(false));
            cov.entry("caps_hit").or_insert(json!([format!("wall-clock budget {} s", self.budget_s)]));
        } else {
            cov.entry("exhaustive").or_insert(json!(true));
        }
        let counters: BTreeMap<String, u64> = stats.counters.iter().map(|(k, v)| (k.to_string(), *v)).collect();
        cov.insert("counters".into(), json!(counters));
        cov.insert(
            "known_findings_met".into(),
            json!(known_met.iter().map(|(k, v)| json!({"id": k, "times": v.0})).collect::<Vec<_>>()),
        );
        cov.insert("violation_list".into(), json!(vio_json));
        if self.level == "model_checking" {
            // the level's own keys must be present and non-zero
            for k in ["states", "transitions", "traces_validated_against_impl"] {
                if !cov.contains_key(k) {
                    eprintln!("MACHINERY: coverage key {} missing for model_checking", k);
                    return 2;
                }
            }
        }
        let ev = json!({
            "property_id": self.prop,
            "tier": self.tier.name(),
            "seed": std::env::var("VERIF_SEED").ok().and_then(|s| s.parse::<i64>().ok()).unwrap_or(0),
            "level": self.level,
            "coverage": coverage,
            "assumptions": assumptions,
            "wall_s": (self.elapsed() * 100.0).round() / 100.0,
            "violations": violations.len(),
        });
        let _ = std::fs::create_dir_all(format!("{}/evidence", verif));
        let path = format!("{}/evidence/{}.json", verif, self.prop);
        if let Err(e) = std::fs::write(&path, serde_json::to_string_pretty(&ev).unwrap()) {
            eprintln!("MACHINERY: cannot write {}: {}", path, e);
            return 2;
        }
        println!(
            "{} {}: evaluations={} distinct={} signatures_failed={} known={} violations={} exhaustive={} wall={:.1}s",
            self.prop,
            self.tier.name(),
            stats.evals,
            stats.distinct.len(),
            stats.fails.len(),
            known_met.len(),
            violations.len(),
            exhaustive,
            self.elapsed()
        );
        for (k, v) in &counters {
            println!("  {} = {}", k, v);
        }
        if !violations.is_empty() {
            1
        } else {
            0
        }
    }
}

/// Vacuity guard: a counter that must be non-zero, else machinery error.
pub fn require_nonzero(stats: &Stats, keys: &[&'static str]) -> Result<(), String> {
    for k in keys {
        if stats.counters.get(k).copied().unwrap_or(0) == 0 {
            return Err(format!("vacuity guard: counter '{}' is zero", k));
        }
    }
    Ok(())
}

/// Generic replay: load the case from a replay file, evaluate twice, compare.
pub fn replay_case<C: DeserializeOwned + Serialize>(path: &str, prop: &str, eval: impl Fn(&C) -> Vec<Fail>) -> i32 {
    let s = match std::fs::read_to_string(path) {
        Ok(s) => s,
        Err(e) => {
            eprintln!("MACHINERY: cannot read {}: {}", path, e);
            return 2;
        }
    };
    let v: J = match serde_json::from_str(&s) {
        Ok(v) => v,
        Err(e) => {
            eprintln!("MACHINERY: bad replay file: {}", e);
            return 2;
        }
    };
    let case: C = match serde_json::from_value(v["case"].clone()) {
        Ok(c) => c,
        Err(e) => {
            eprintln!("MACHINERY: replay case does not deserialize: {}", e);
            return 2;
        }
    };
    let a = eval(&case);
    let b = eval(&case);
    let sa: Vec<&String> = a.iter().map(|f| &f.sig).collect();
    let sb: Vec<&String> = b.iter().map(|f| &f.sig).collect();
    if sa != sb {
        eprintln!("MACHINERY: replay is not deterministic: {:?} vs {:?}", sa, sb);
        return 2;
    }
    if a.is_empty() {
        println!("replay: property {} holds on this case", prop);
        0
    } else {
        for f in &a {
            println!("VIOLATION property={} replay={}", prop, path);
            println!("  signature: {}", f.sig);
            println!("  detail: {}", f.detail);
        }
        1
    }
}

// ------------------------------------------------------------------------------------
// watchdog: an evaluation that does not return is a violation of the totality clauses (and would otherwise
// make the check hang). Workers publish what they are working on; a monitor thread reports anything that
// has been running for longer than the limit and ends the process with exit status 1.

pub struct Watch {
    slots: Vec<(std::sync::atomic::AtomicU64, std::sync::atomic::AtomicU64, std::sync::atomic::AtomicU64)>,
    phase: std::sync::Mutex<String>,
    t0: Instant,
}
static WATCH: std::sync::OnceLock<Watch> = std::sync::OnceLock::new();

pub fn watch_start(prop: &'static str, tier: Tier) {
    let w = Watch { slots: (0..256).map(|_| Default::default()).collect(), phase: std::sync::Mutex::new(String::new()), t0: Instant::now() };
    if WATCH.set(w).is_err() {
        return;
    }
    let limit_ms: u64 = std::env::var("VERIF_HANG_S").ok().and_then(|s| s.parse::<u64>().ok()).unwrap_or(90) * 1000;
    std::thread::spawn(move || loop {
        std::thread::sleep(std::time::Duration::from_millis(1000));
        let w = WATCH.get().unwrap();
        let now = w.t0.elapsed().as_millis() as u64;
        for (i, (start, a, b)) in w.slots.iter().enumerate() {
            let st = start.load(Ordering::Relaxed);
            if st != 0 && now.saturating_sub(st) > limit_ms {
                let phase = w.phase.lock().map(|p| p.clone()).unwrap_or_default();
                let (a, b) = (a.load(Ordering::Relaxed), b.load(Ordering::Relaxed));
                let verif = verif_dir();
                let _ = std::fs::create_dir_all(format!("{}/replays", verif));
                let path = format!("{}/replays/{}-{}-hang.json", verif, prop, tier.name());
                let body = json!({"property": prop, "hang": true, "signature": format!("hang|{}", phase), "phase": phase, "work_item": [a, b], "worker": i,
                    "detail": format!("an evaluation in phase '{}' (work item {}..{}) has not returned for more than {} s", phase, a, b, limit_ms / 1000)});
                let _ = std::fs::write(&path, serde_json::to_string_pretty(&body).unwrap());
                let ev = json!({"property_id": prop, "tier": tier.name(), "seed": 0, "level": "other",
                    "coverage": {"explanation": format!("run aborted: an evaluation in phase '{}' did not return within {} s (reported as a violation: non-termination)", phase, limit_ms / 1000), "exhaustive": false},
                    "wall_s": w.t0.elapsed().as_secs_f64(), "violations": 1});
                let _ = std::fs::create_dir_all(format!("{}/evidence", verif));
                let _ = std::fs::write(format!("{}/evidence/{}.json", verif, prop), serde_json::to_string_pretty(&ev).unwrap());
                println!("VIOLATION property={} replay={}", prop, path);
                println!("  signature: hang|{}", phase);
                println!("  detail: {}", body["detail"].as_str().unwrap_or(""));
                std::process::exit(1);
            }
        }
    });
}

pub fn watch_phase(name: &str) {
    if let Some(w) = WATCH.get() {
        if let Ok(mut p) = w.phase.lock() {
            *p = name.to_string();
        }
    }
}

pub fn watch_begin(a: u64, b: u64) {
    if let (Some(w), Some(i)) = (WATCH.get(), rayon::current_thread_index()) {
        if let Some(slot) = w.slots.get(i) {
            slot.1.store(a, Ordering::Relaxed);
            slot.2.store(b, Ordering::Relaxed);
            slot.0.store((w.t0.elapsed().as_millis() as u64).max(1), Ordering::Relaxed);
        }
    }
}

pub fn watch_end() {
    if let (Some(w), Some(i)) = (WATCH.get(), rayon::current_thread_index()) {
        if let Some(slot) = w.slots.get(i) {
            slot.0.store(0, Ordering::Relaxed);
        }
    }
}

/// Parallel map-reduce over an index range with deterministic merge.
pub fn par_range(ctx: &Ctx, total: u64, f: impl Fn(u64, &mut Stats) + Sync + Send) -> Stats {
    use rayon::prelude::*;
    let chunk: u64 = 256;
    let nchunks = total.div_ceil(chunk);
    (0..nchunks)
        .into_par_iter()
        .fold(Stats::default, |mut st, c| {
            if ctx.expired() {
                st.capped = true;
                return st;
            }
            let lo = c * chunk;
            let hi = (lo + chunk).min(total);
            watch_begin(lo, hi);
            for i in lo..hi {
                f(i, &mut st);
            }
            watch_end();
            st
        })
        .reduce(Stats::default, Stats::merge)
}

/// Parallel map-reduce over a slice.
pub fn par_slice<T: Sync>(ctx: &Ctx, items: &[T], f: impl Fn(&T, &mut Stats) + Sync + Send) -> Stats {
    par_range(ctx, items.len() as u64, |i, st| f(&items[i as usize], st))
}

// ---------------------------------------------------------------------------------
// environment for the Write-based entry points: a sink whose answers the harness decides

/// A sink that accepts at most `chunk` bytes per `write` call and answers the `fail_at`-th call
/// (0-based) with an error. `calls` counts the calls made, `data` is what was accepted.
pub struct ScriptedWriter {
    pub chunk: usize,
    pub fail_at: Option<usize>,
    pub calls: usize,
    pub data: Vec<u8>,
}

impl ScriptedWriter {
    pub fn new(chunk: usize, fail_at: Option<usize>) -> Self {
        ScriptedWriter { chunk, fail_at, calls: 0, data: vec![] }
    }
}

impl std::io::Write for ScriptedWriter {
    fn write(&mut self, buf: &[u8]) -> std::io::Result<usize> {
        let n = self.calls;
        self.calls += 1;
        if self.fail_at == Some(n) {
            return Err(std::io::Error::new(std::io::ErrorKind::Other, "scripted failure"));
        }
        let k = buf.len().min(self.chunk);
        self.data.extend_from_slice(&buf[..k]);
        Ok(k)
    }
    fn flush(&mut self) -> std::io::Result<()> {
        Ok(())
    }
}
