//! C20 The same document built three ways is the same tree.
//! Routes: parse of a rendering, fixed::Document xotify, stepwise creation in *every* order of the attach steps.
use crate::atree::*;
use crate::common::*;
use crate::gen::*;
use crate::nsscope::*;
use crate::props::c01::norm;
use crate::xmlwrite::render_default;
use serde::{Deserialize, Serialize};
use serde_json::json;
use xot::{fixed, Node, Xot};

#[derive(Serialize, Deserialize, Clone)]
pub struct Case {
    /// document: leading comments/PIs, one element, trailing comments/PIs
    pub tree: A,
    /// permutation of the attach steps (indices into the pre-order list of non-root nodes); empty = only routes A and B
    pub order: Vec<usize>,
    /// prefer the left neighbour (insert_after) over the right one (insert_before) when both are attached
    pub prefer_left: bool,
    /// Some(api): elements are created bare and every declaration / attribute is its own step (indices after the
    /// attach steps, in pre-order of elements, declarations before attributes); api 0 = append_namespace_node /
    /// append_attribute_node, 1 = any_append, 2 = namespaces_mut().insert / set_attribute
    #[serde(default)]
    pub decor: Option<u8>,
}

fn to_fixed_pi(a: &A) -> fixed::ProcessingInstruction {
    fixed::ProcessingInstruction { target: a.name.clone(), content: a.val.clone() }
}
fn to_fixed_element(a: &A) -> fixed::Element {
    fixed::Element {
        name: fixed::Name { namespace: a.ns.clone(), localname: a.name.clone() },
        prefixes: a.nss.iter().map(|d| fixed::Prefix { name: d.name.clone(), namespace: d.ns.clone() }).collect(),
        attributes: a.attrs.iter().map(|x| (fixed::Name { namespace: x.ns.clone(), localname: x.name.clone() }, x.val.clone().unwrap_or_default())).collect(),
        children: a
            .ch
            .iter()
            .map(|c| match c.k {
                K::Text => fixed::Content::Text(c.val.clone().unwrap_or_default()),
                K::Comment => fixed::Content::Comment(c.val.clone().unwrap_or_default()),
                K::Pi => fixed::Content::ProcessingInstruction(to_fixed_pi(c)),
                _ => fixed::Content::Element(to_fixed_element(c)),
            })
            .collect(),
    }
}
fn to_fixed_doc(a: &A) -> fixed::Document {
    let ei = a.ch.iter().position(|c| c.k == K::Elem).unwrap();
    let dc = |c: &A| match c.k {
        K::Comment => fixed::DocumentContent::Comment(c.val.clone().unwrap_or_default()),
        _ => fixed::DocumentContent::ProcessingInstruction(to_fixed_pi(c)),
    };
    fixed::Document { before: a.ch[..ei].iter().map(dc).collect(), document_element: to_fixed_element(&a.ch[ei]), after: a.ch[ei + 1..].iter().map(dc).collect() }
}

/// flat list of ordinary nodes in pre-order: (parent index, position among siblings)
struct Plan<'a> {
    nodes: Vec<&'a A>,
    parent: Vec<Option<usize>>,
    pos: Vec<usize>,
    kids: Vec<Vec<usize>>,
}
fn plan(a: &A) -> Plan<'_> {
    fn rec<'a>(a: &'a A, parent: Option<usize>, pos: usize, p: &mut Plan<'a>) {
        let me = p.nodes.len();
        p.nodes.push(a);
        p.parent.push(parent);
        p.pos.push(pos);
        p.kids.push(vec![]);
        if let Some(pp) = parent {
            p.kids[pp].push(me);
        }
        for (i, c) in a.ch.iter().enumerate() {
            rec(c, Some(me), i, p);
        }
    }
    let mut p = Plan { nodes: vec![], parent: vec![], pos: vec![], kids: vec![] };
    rec(a, None, 0, &mut p);
    p
}

/// stepwise construction; returns None if the order would make two text nodes adjacent transiently
/// decoration steps of a document: (plan index of the element, is declaration, index in its list)
fn decorations(tree: &A) -> Vec<(usize, bool, usize)> {
    let p = plan(tree);
    let mut out = vec![];
    for (i, n) in p.nodes.iter().enumerate() {
        for j in 0..n.nss.len() {
            out.push((i, true, j));
        }
        for j in 0..n.attrs.len() {
            out.push((i, false, j));
        }
    }
    out
}

/// the order keeps declarations (and attributes) of one element in their map order
fn decor_order_valid(tree: &A, order: &[usize]) -> bool {
    let n = tree.normal_size() - 1;
    let decs = decorations(tree);
    let mut last: std::collections::HashMap<(usize, bool), usize> = Default::default();
    for &s in order {
        if s >= n {
            let (e, d, j) = decs[s - n];
            let want = last.get(&(e, d)).map(|x| x + 1).unwrap_or(0);
            if j != want {
                return false;
            }
            last.insert((e, d), j);
        }
    }
    true
}

fn stepwise(xot: &mut Xot, tree: &A, order: &[usize], prefer_left: bool, decor: Option<u8>, ops_used: &mut Vec<&'static str>) -> Option<Result<Node, String>> {
    let p = plan(tree);
    // create every node unattached (elements with their declarations and attributes, unless these are steps)
    let mut handles: Vec<Node> = vec![];
    for n in &p.nodes {
        let mut shallow = (*n).clone();
        shallow.ch.clear();
        if decor.is_some() {
            shallow.nss.clear();
            shallow.attrs.clear();
        }
        handles.push(build1(xot, &shallow));
    }
    let decs = decorations(tree);
    let nattach = p.nodes.len() - 1;
    let mut attached = vec![false; p.nodes.len()];
    attached[0] = true; // the document node is the root everything is attached to (directly or bottom-up)
    for &step in order {
        if step >= nattach {
            let (ei, is_decl, j) = decs[step - nattach];
            let el = handles[ei];
            let r: Result<(), xot::Error> = if is_decl {
                let d = &p.nodes[ei].nss[j];
                let (pf, ns) = (xot.add_prefix(&d.name), xot.add_namespace(&d.ns));
                match decor.unwrap_or(0) {
                    0 => {
                        ops_used.push("append_namespace_node");
                        let n = xot.new_namespace_node(pf, ns);
                        xot.append_namespace_node(el, n).map(|_| ())
                    }
                    1 => {
                        ops_used.push("any_append");
                        let n = xot.new_namespace_node(pf, ns);
                        xot.any_append(el, n).map(|_| ())
                    }
                    _ => {
                        ops_used.push("map_insert");
                        xot.namespaces_mut(el).insert(pf, ns);
                        Ok(())
                    }
                }
            } else {
                let a = &p.nodes[ei].attrs[j];
                let ns = xot.add_namespace(&a.ns);
                let name = xot.add_name_ns(&a.name, ns);
                let val = a.val.clone().unwrap_or_default();
                match decor.unwrap_or(0) {
                    0 => {
                        ops_used.push("append_attribute_node");
                        let n = xot.new_attribute_node(name, val);
                        xot.append_attribute_node(el, n).map(|_| ())
                    }
                    1 => {
                        ops_used.push("any_append");
                        let n = xot.new_attribute_node(name, val);
                        xot.any_append(el, n).map(|_| ())
                    }
                    _ => {
                        ops_used.push("map_insert");
                        xot.set_attribute(el, name, val);
                        Ok(())
                    }
                }
            };
            if let Err(e) = r {
                return Some(Err(format!("{:?}", e)));
            }
            continue;
        }
        let i = step + 1; // non-root nodes are 1..
        let par = p.parent[i].unwrap();
        let sibs = &p.kids[par];
        let my = p.pos[i];
        let left = sibs[..my].iter().rev().copied().find(|s| attached[*s]);
        let right = sibs[my + 1..].iter().copied().find(|s| attached[*s]);
        // transient text adjacency?
        if p.nodes[i].k == K::Text && (left.map(|l| p.nodes[l].k == K::Text).unwrap_or(false) || right.map(|r| p.nodes[r].k == K::Text).unwrap_or(false)) {
            return None;
        }
        let r = match (left, right) {
            (None, None) => {
                // first child of a (possibly attribute-carrying) parent: both ways of adding it
                if prefer_left {
                    ops_used.push("prepend");
                    xot.prepend(handles[par], handles[i])
                } else {
                    ops_used.push("append");
                    xot.append(handles[par], handles[i])
                }
            }
            (Some(l), None) => {
                if prefer_left {
                    ops_used.push("insert_after");
                    xot.insert_after(handles[l], handles[i])
                } else {
                    ops_used.push("append");
                    xot.append(handles[par], handles[i])
                }
            }
            (None, Some(r)) => {
                if prefer_left {
                    ops_used.push("prepend");
                    xot.prepend(handles[par], handles[i])
                } else {
                    ops_used.push("insert_before");
                    xot.insert_before(handles[r], handles[i])
                }
            }
            (Some(l), Some(r)) => {
                if prefer_left {
                    ops_used.push("insert_after");
                    xot.insert_after(handles[l], handles[i])
                } else {
                    ops_used.push("insert_before");
                    xot.insert_before(handles[r], handles[i])
                }
            }
        };
        if let Err(e) = r {
            return Some(Err(format!("{:?}", e)));
        }
        attached[i] = true;
    }
    Some(Ok(handles[0]))
}

pub fn eval(case: &Case) -> Vec<Fail> {
    let mut st = Stats::default();
    eval_case(case, &mut st)
}

pub fn eval_case(case: &Case, st: &mut Stats) -> Vec<Fail> {
    let mut fails = vec![];
    let tree = &case.tree;
    let mut xot = Xot::new();
    let Some(text) = render_default(tree) else { return fails };
    // route A: parse
    let a = match catch(|| xot.parse(&text)) {
        Ok(Ok(n)) => n,
        other => {
            fails.push(Fail::new("parse-route-fails", format!("{:?}: {:?}", text, other)));
            return fails;
        }
    };
    let ra = read(&xot, a);
    st.evals += 1;
    if let Some(d) = diff_class(&norm(tree), &norm(&ra)) {
        fails.push(Fail::new(format!("parse-route-differs|{}", d), format!("{:?} parsed as {}", text, ra.show())));
        return fails;
    }
    let sa = xot.to_string(a);
    if case.order.is_empty() {
        // the parse route does not depend on how white space in attribute values and namespace URIs, or line ends in
        // text, are spelled: every spelling that differs from the default one in one such choice gives the same tree
        let base = crate::spell::render(tree, &[]);
        for (i, m) in base.points.iter().enumerate().skip(1) {
            if !matches!(base.labels[i], "attr:space" | "text:LF" | "attr:ws-ref" | "text:CR" | "text:TAB") {
                continue;
            }
            for alt in 1..*m as usize {
                let r = crate::spell::render(tree, &[(i, alt)]);
                st.evals += 1;
                st.bump("respelled_parses");
                match catch(|| xot.parse(&r.text)) {
                    Ok(Ok(n)) => {
                        let rn = read(&xot, n);
                        if let Some(d) = diff_class(&norm(tree), &norm(&rn)) {
                            fails.push(Fail::new(format!("parse-route-differs|respelled|{}", strip(&d)), format!("{:?} parsed as {}", r.text, rn.show())));
                        } else if !xot.deep_equal(a, n) {
                            fails.push(Fail::new("parse-route|respelled|deep_equal-false", format!("{:?}", r.text)));
                        }
                    }
                    other => fails.push(Fail::new("parse-route-fails|respelled", format!("{:?}: {:?}", r.text, other.map(|r| r.map(|_| ())))),),
                }
            }
        }
        if !fails.is_empty() {
            return fails;
        }
        // route B: fixed
        let fd = to_fixed_doc(tree);
        let b = match catch(|| fd.xotify(&mut xot)) {
            Ok(n) => n,
            Err(p) => {
                fails.push(Fail::new(format!("panic|xotify|{}", panic_class(&p)), tree.show()));
                return fails;
            }
        };
        st.evals += 1;
        let rb = read(&xot, b);
        if let Some(d) = diff_class(&norm(tree), &norm(&rb)) {
            let where_ = placement_feature(tree, &rb);
            fails.push(Fail::new(format!("fixed-route-differs|{}|{}", where_, strip(&d)), format!("fixed::Document for {} xotified as {}", tree.show(), rb.show())));
        } else {
            if !xot.deep_equal(a, b) {
                fails.push(Fail::new("fixed-route|deep_equal-false", tree.show()));
            }
            let sb = xot.to_string(b);
            if format!("{:?}", sa) != format!("{:?}", sb) {
                fails.push(Fail::new("fixed-route|serialises-differently", format!("{:?} vs {:?}", sa, sb)));
            }
            st.bump("fixed_ok");
        }
        // fixed::Element alone
        let ei = tree.ch.iter().position(|c| c.k == K::Elem).unwrap();
        let fe = to_fixed_element(&tree.ch[ei]);
        match catch(|| fe.xotify(&mut xot)) {
            Ok(n) => {
                st.evals += 1;
                let re = read(&xot, n);
                if let Some(d) = diff_class(&norm(&tree.ch[ei]), &norm(&re)) {
                    fails.push(Fail::new(format!("fixed-element-differs|{}", strip(&d)), format!("{} -> {}", tree.ch[ei].show(), re.show())));
                }
            }
            Err(p) => fails.push(Fail::new(format!("panic|element-xotify|{}", panic_class(&p)), tree.show())),
        }
        return fails;
    }
    // route C: stepwise in the given order
    let mut ops = vec![];
    match catch(|| stepwise(&mut xot, tree, &case.order, case.prefer_left, case.decor, &mut ops)) {
        Err(p) => fails.push(Fail::new(format!("panic|stepwise|{}", panic_class(&p)), format!("{} order {:?}", tree.show(), case.order))),
        Ok(None) => {
            st.bump("orders_skipped_text_adjacent");
        }
        Ok(Some(Err(e))) => fails.push(Fail::new(format!("stepwise-refused|{}", crate::props::c01::err_class(&e)), format!("{} order {:?} decor {:?} ops {:?}: {}", tree.show(), case.order, case.decor, ops, e))),
        Ok(Some(Ok(c))) => {
            st.evals += 1;
            st.bump("stepwise_programs");
            for o in &ops {
                st.bump(match *o {
                    "append" => "op_append",
                    "prepend" => "op_prepend",
                    "insert_after" => "op_insert_after",
                    "insert_before" => "op_insert_before",
                    "append_namespace_node" => "op_append_namespace_node",
                    "append_attribute_node" => "op_append_attribute_node",
                    "any_append" => "op_any_append",
                    _ => "op_map_insert",
                });
            }
            let rc = read(&xot, c);
            if let Some(d) = diff_class(&norm(tree), &norm(&rc)) {
                fails.push(Fail::new(format!("stepwise-differs|{}", strip(&d)), format!("{} built in order {:?} decor {:?} (ops {:?}) gives {}", tree.show(), case.order, case.decor, ops, rc.show())));
            } else {
                if !xot.deep_equal(a, c) {
                    fails.push(Fail::new("stepwise|deep_equal-false", tree.show()));
                }
                let sc = xot.to_string(c);
                if format!("{:?}", sa) != format!("{:?}", sc) {
                    fails.push(Fail::new("stepwise|serialises-differently", format!("{:?} vs {:?}", sa, sc)));
                }
            }
        }
    }
    fails
}

fn strip(d: &str) -> String {
    d.split(':').next().unwrap_or(d).to_string()
}

fn placement_feature(tree: &A, got: &A) -> &'static str {
    let ei = tree.ch.iter().position(|c| c.k == K::Elem).unwrap();
    let after = tree.ch.len() - ei - 1;
    let gei = got.ch.iter().position(|c| c.k == K::Elem);
    match gei {
        Some(g) => {
            if got.ch.len() - g - 1 != after {
                "trailing-items-misplaced"
            } else if g != ei {
                "leading-items-misplaced"
            } else if got.ch[..g].iter().zip(tree.ch[..ei].iter()).any(|(x, y)| x != y) {
                "leading-items-order"
            } else {
                "other"
            }
        }
        None => "no-element",
    }
}

fn documents(tier: Tier) -> Vec<A> {
    let al = TreeAlphabet {
        elements: vec![A::el("", "a"), A::el("", "b").attr("", "k", "v").attr("", "l", "w"), A::el(X, "c").decl("p", X).decl("q", Y).attr(Y, "m", "1")],
        leaves: vec![A::text("t"), A::comment("c"), A::pi("pi", Some("d"))],
        adjacent_text: false,
    };
    // declarations that re-establish a shadowed binding, and default-namespace undeclaration
    let extra = vec![
        A::doc(vec![A::el(X, "d").decl("p", X).child(A::el(Y, "m").decl("p", Y).child(A::el(X, "x").decl("p", X).child(A::el(X, "y"))))]),
        A::doc(vec![A::el(X, "d").decl("", X).child(A::el("", "b").decl("", "").child(A::el("", "c")))]),
        A::doc(vec![A::el(X, "d").decl("", X).child(A::el(Y, "b").decl("", Y).child(A::el(X, "c").decl("", X).child(A::el(X, "e"))))]),
    ];
    // values that only survive the parse route if references and line ends are handled exactly
    let mut extra = extra;
    extra.push(A::doc(vec![A::el("", "a").attr("", "k", "x\ty\nz\rw").attr("", "l", " \"'<&> ").child(A::text("a\rb\tc\nd"))]));
    extra.push(A::doc(vec![A::el("u\tv", "a").decl("p", "u\tv").attr("u\tv", "k", "\n").child(A::el("", "b").child(A::text("]]>")))]));
    extra.push(A::doc(vec![A::el("u v", "a").decl("p", "u v").decl("", "x  y").attr("u v", "k", "a b").child(A::el("x  y", "b").child(A::text("l1\nl2")))]));
    extra.push(A::doc(vec![A::el("", "a").attr("", "k", "").attr("", "l", " ").child(A::el("", "b").attr("", "k", ""))]));
    let items = [A::comment("l"), A::pi("x", None)];
    let lead: Vec<Vec<A>> = (0..strings_count(2, 2)).map(|i| nth_string(&items, 2, i)).collect();
    let maxn = tier.pick(5, 6);
    let mut out = extra;
    for k in 1..=4 {
        for e in element_trees(&al, k) {
            for l in &lead {
                for t in &lead {
                    if k + l.len() + t.len() > maxn {
                        continue;
                    }
                    let mut ch = l.clone();
                    ch.push(e.clone());
                    ch.extend(t.iter().cloned());
                    out.push(A::doc(ch));
                }
            }
        }
    }
    out
}

fn permutations(n: usize) -> Vec<Vec<usize>> {
    fn rec(cur: &mut Vec<usize>, used: &mut Vec<bool>, n: usize, out: &mut Vec<Vec<usize>>) {
        if cur.len() == n {
            out.push(cur.clone());
            return;
        }
        for i in 0..n {
            if !used[i] {
                used[i] = true;
                cur.push(i);
                rec(cur, used, n, out);
                cur.pop();
                used[i] = false;
            }
        }
    }
    let mut out = vec![];
    rec(&mut vec![], &mut vec![false; n], n, &mut out);
    out
}

pub fn run(tier: Tier) -> i32 {
    let ctx = Ctx::new("C20", tier, "exploration");
    let docs = documents(tier);
    let perms: Vec<Vec<Vec<usize>>> = (0..=7).map(|n| if n <= tier.pick(5, 6) { permutations(n) } else { vec![] }).collect();
    let stats = par_slice(&ctx, &docs, |d, st| {
        st.bump("documents");
        let n = d.normal_size() - 1;
        let c0 = Case { tree: d.clone(), order: vec![], prefer_left: false, decor: None };
        for f in eval_case(&c0, st) {
            st.fail(&c0, f);
        }
        st.outcome(&(d.canon(), 0usize, false));
        for (pi, perm) in perms[n].iter().enumerate() {
            for prefer_left in [false, true] {
                let c = Case { tree: d.clone(), order: perm.clone(), prefer_left, decor: None };
                for f in eval_case(&c, st) {
                    st.fail(&c, f);
                }
                st.outcome(&(d.canon(), pi + 1, prefer_left));
            }
        }
        if st.counters["documents"] % 301 == 1 {
            st.sample(|| json!({"document": d.show(), "attach_steps": n, "programs": perms[n].len() * 2}));
        }
    });
    // declarations and attributes as steps of their own: every interleaving with the attach steps
    let al = TreeAlphabet {
        elements: vec![A::el("", "a"), A::el("", "b").attr("", "k", "v").attr("", "l", "w"), A::el(X, "c").decl("p", X).decl("q", Y).attr(Y, "m", "1")],
        leaves: vec![A::text("t"), A::comment("c")],
        adjacent_text: false,
    };
    let max_steps = tier.pick(7, 8);
    let mut small: Vec<A> = vec![];
    for k in 1..=3 {
        for e in element_trees(&al, k) {
            let d = A::doc(vec![e]);
            let steps = d.normal_size() - 1 + decorations(&d).len();
            if !decorations(&d).is_empty() && steps <= max_steps {
                small.push(d);
            }
        }
    }
    let all_perms: Vec<Vec<Vec<usize>>> = (0..=max_steps).map(permutations).collect();
    let stats2 = par_slice(&ctx, &small, |d, st| {
        st.bump("decorated_documents");
        let steps = d.normal_size() - 1 + decorations(d).len();
        for (pi, perm) in all_perms[steps].iter().enumerate() {
            if !decor_order_valid(d, perm) {
                continue;
            }
            for api in 0..3u8 {
                let prefer_left = (pi + api as usize) % 2 == 0;
                let c = Case { tree: d.clone(), order: perm.clone(), prefer_left, decor: Some(api) };
                for f in eval_case(&c, st) {
                    st.fail(&c, f);
                }
                st.bump("decorated_programs");
                st.outcome(&(d.canon(), pi + 1, api + 2));
            }
        }
    });
    let stats = stats.merge(stats2);
    if let Err(e) = require_nonzero(&stats, &["documents", "stepwise_programs", "op_append", "op_prepend", "op_insert_after", "op_insert_before", "decorated_programs", "op_append_namespace_node", "op_append_attribute_node", "op_any_append", "op_map_insert"]) {
        eprintln!("MACHINERY: {}", e);
        return 2;
    }
    let cov = json!({
        "rule": format!("documents = 0-2 leading and 0-2 trailing comments/PIs around every element tree with <= 4 ordinary nodes over 3 element prototypes (attributes, two declarations, namespaced attribute) and text/comment/PI leaves, total attach steps <= {}; routes: parse of the default rendering and of every rendering that spells one white-space character of an attribute value / namespace URI or one line end differently, fixed::Document / fixed::Element xotify, stepwise creation with every permutation of the attach steps x two neighbour preferences (append / prepend / insert_after / insert_before, bottom-up orders included; orders that make two text nodes adjacent transiently are skipped); plus, for every element tree with <= 3 ordinary nodes that carries declarations or attributes and needs <= {} steps in all, bare elements with every declaration and attribute as a step of its own (append_namespace_node / append_attribute_node, any_append, or the map API), in every interleaving with the attach steps that keeps each element's map order; plus documents whose attribute values, namespace URIs and text contain TAB, LF, CR, quotes and markup characters; distinct = distinct (document, program)", tier.pick(5, 6), tier.pick(7, 8)),
    });
    ctx.finish(stats, cov, vec!["XmlWrite default rendering is trusted (self-checked by the parse route comparing against the abstract document)".into()])
}
