//! C06 A refused manipulation changes nothing; calls on live nodes do not panic.
use crate::atree::*;
use crate::bfs::*;
use crate::common::*;
use crate::histcommon::*;
use crate::world::*;
use serde_json::json;

pub type Case = HistoryCase;

pub struct C06;

fn observable(w: &World, forest: &[A]) -> Vec<String> {
    let mut v: Vec<String> = vec![];
    for t in forest {
        let r = w.node(t.id as usize - 1);
        let s = catch(|| w.xot.to_string(r).map_err(|e| format!("{:?}", e)));
        v.push(format!("{} => {:?}", t.canon_ids(), s));
    }
    v.sort();
    v
}

impl Oracle for C06 {
    fn ops(&self, _w: &World, forest: &[A], _depth: usize) -> Vec<Op> {
        // set_text_consolidation is not a manipulation with node arguments, but it is needed to reach
        // the consolidation-off states; creation and parsing add material
        all_ops(forest, OpMenu::full())
    }
    fn judge(&self, s: Step, st: &mut Stats) -> Verdict {
        let mut fails = vec![];
        let call = call_signature(s.pre, s.pre_forest, s.op);
        let ctx = |detail: &str| format!("{:?} on [{}] -> {:?}: {}", s.op, forest_show(s.pre_forest), s.outcome, detail);
        match s.outcome {
            Outcome::Panic(p) => {
                let non_element = s.op.args().first().map(|h| s.pre.kinds[*h] != K::Elem).unwrap_or(false);
                if s.op.documented_panic_on_non_element() && non_element {
                    st.bump("documented_panics");
                } else {
                    fails.push(Fail::new(format!("panic|{}|{}", call, panic_class(p)), ctx("")));
                }
                Verdict { fails, expand: false }
            }
            Outcome::Err(_) => {
                match s.post_forest {
                    Err(e) => fails.push(Fail::new(format!("atomicity|{}|unreadable", call), ctx(e))),
                    Ok(pf) => {
                        let before = observable(s.pre, s.pre_forest);
                        let after = observable(s.post, pf);
                        let newly_dead: Vec<usize> = (0..s.pre.tab.len()).filter(|h| !s.pre.dead[*h] && s.post.dead[*h]).collect();
                        if before != after || !newly_dead.is_empty() {
                            fails.push(Fail::new(
                                format!("atomicity|{}", call),
                                ctx(&format!("refused call changed the forest: before {:?} after {:?} newly removed handles {:?}", before, after, newly_dead)),
                            ));
                        } else {
                            st.bump("refusals_checked");
                        }
                    }
                }
                Verdict { fails, expand: false }
            }
            Outcome::Ok(_) => {
                // no obligation here; expand only readable states
                let expand = s.post_forest.is_ok();
                Verdict { fails, expand }
            }
        }
    }
}

pub fn eval(case: &Case) -> Vec<Fail> {
    replay_history(&C06, case)
}

pub fn run(tier: Tier) -> i32 {
    let ctx = Ctx::new("C06", tier, "model_checking");
    let depth = tier.pick(2, 3);
    let st = starts();
    let mut r = bfs(&ctx, &C06, &st, depth);
    let tiny = tiny_starts();
    let rt = bfs(&ctx, &C06, &tiny, depth + 1);
    r.stats = r.stats.merge(rt.stats);
    r.states += rt.states;
    r.transitions += rt.transitions;
    r.levels.extend(rt.levels);
    if let Err(e) = require_nonzero(&r.stats, &["calls_ok", "calls_refused", "refusals_checked", "documented_panics"]) {
        eprintln!("MACHINERY: {}", e);
        return 2;
    }
    let cov = json!({
        "states": r.states,
        "transitions": r.transitions,
        "traces_validated_against_impl": r.transitions,
        "rule": "states = distinct canonical forests; transitions = every operation of the mutating alphabet with every argument tuple of live handles (attached, unattached, other tree, ancestor/descendant, identical), executed on the real Xot under catch_unwind; on Err the forest snapshot (structure with handles, values, to_string of every root, handle liveness) before and after must be equal",
        "bounds": {"bfs_depth": depth, "starts": st.len(), "tiny_starts_one_level_deeper": tiny.len()},
        "levels_completed": r.levels,
    });
    ctx.finish(r.stats, cov, vec!["the oracle does not predict whether a call is refused".into()])
}
