//! C17 Source spans and error positions point at the right text.
//! Span clause: the C02 spelling space through parse_with_span_info / parse_fragment_with_span_info, against the
//! renderer's offset table. Error clause: every rejected input of a raw-string sweep and of a damage sweep.
use crate::common::*;
use crate::gen::*;
use crate::props::c02;
use crate::spell::*;
use serde_json::json;
use xot::Xot;

pub type Case = c02::Case;

pub fn eval(case: &Case) -> Vec<Fail> {
    let mut st = Stats::default();
    c02::eval_case(case, &mut st, false, true)
}

const SIGMA: [&str; 18] = ["<", ">", "/", "a", ":", "=", "\"", "'", "&", ";", "#", "x", "!", "-", "[", "]", "?", " "];

fn error_span_ok(text: &str, e: &xot::ParseError) -> Result<(), String> {
    let sp = e.span();
    if sp.start <= sp.end && sp.end <= text.len() {
        // an error of the tokenizer carries a second position, the row and column that Display prints: it has to
        // denote a place in the source as well
        if let xot::ParseError::XmlParser(inner, _) = e {
            let p = inner.pos();
            let rows: Vec<&str> = text.split('\n').collect();
            let inside = p.row >= 1 && (p.row as usize) <= rows.len() && p.col >= 1 && (p.col as usize) <= rows[p.row as usize - 1].chars().count() + 1;
            if !inside {
                return Err(format!("ROWCOL {:?}: row {} column {} is not a place in a source whose rows have {:?} characters", e, p.row, p.col, rows.iter().map(|r| r.chars().count()).collect::<Vec<_>>()));
            }
        }
        Ok(())
    } else {
        Err(format!("{:?} reports span {}..{} for a text of {} bytes", e, sp.start, sp.end, text.len()))
    }
}

pub fn run(tier: Tier) -> i32 {
    // span clause: reuse the C02 engine restricted to the span checks (entry points with span info are part of the ball)
    let ctx = Ctx::new("C17", tier, "exploration");
    let docs = c02::documents(tier);
    let mut stats = Stats::default();
    let mut total = 0u64;
    for doc in &docs {
        let base = render(doc, &[]);
        // fix the entry point to the two span-info entry points and take the 2-deviation ball of the rest
        let b = ball(&base.points, 2);
        let mut devs: Vec<Vec<(usize, usize)>> = vec![];
        for d in b {
            if d.iter().any(|(i, _)| *i == 0) {
                continue;
            }
            for entry_alt in [1usize, 2] {
                let mut x = vec![(0usize, entry_alt)];
                x.extend(d.iter().cloned());
                devs.push(x);
            }
        }
        total += devs.len() as u64;
        let s = par_slice(&ctx, &devs, |dev, st| {
            let case = Case { doc: doc.clone(), deviations: dev.clone() };
            let fails = c02::eval_case(&case, st, false, true);
            st.bump("spellings");
            st.outcome(&(doc.canon(), dev));
            for f in fails {
                st.fail(&case, f);
            }
        });
        stats = stats.merge(s);
        if stats.samples.len() < 3 {
            stats.samples.push(json!({"document": doc.show(), "default_spelling": base.text, "spans_recorded": base.spans.len()}));
        }
    }
    // error clause (a): raw strings
    let l = tier.pick(4, 5);
    let n = strings_count(SIGMA.len() as u64, l);
    let s = par_range(&ctx, n, |i, st| {
        let t = nth_str(&SIGMA, l, i);
        for frag in [false, true] {
            let mut xot = Xot::new();
            let r = catch(|| if frag { xot.parse_fragment(&t).map(|_| ()) } else { xot.parse(&t).map(|_| ()) });
            st.evals += 1;
            if let Ok(Err(e)) = r {
                st.bump("errors_checked");
                st.outcome(&(crate::props::c01::err_class(&format!("{:?}", e)), e.span().start, e.span().end));
                if let Err(d) = error_span_ok(&t, &e) {
                    st.fail(&json!({"text": t, "fragment": frag}), Fail::new(format!("{}|{}", if d.starts_with("ROWCOL ") { "error-position-outside-source|row-column" } else { "error-span-out-of-bounds" }, crate::props::c01::err_class(&format!("{:?}", e))), d));
                }
            }
        }
    });
    total += n;
    stats = stats.merge(s);
    // error clause (b): damaged default spellings (delete / duplicate / replace one character at every position)
    let mut damaged: Vec<String> = vec![];
    for doc in &docs {
        let base = render(doc, &[]).text;
        let chars: Vec<char> = base.chars().collect();
        for i in 0..chars.len() {
            let mut d: Vec<char> = chars.clone();
            d.remove(i);
            damaged.push(d.iter().collect());
            for r in ['<', '&', '"', '>'] {
                let mut d = chars.clone();
                d[i] = r;
                damaged.push(d.iter().collect());
            }
        }
        for cut in 1..chars.len() {
            damaged.push(chars[..cut].iter().collect());
        }
    }
    // the same damages behind a declaration whose first separator is a TAB or a line feed (both legal)
    let respelled: Vec<String> = damaged
        .iter()
        .flat_map(|t| {
            if t.starts_with("<?xml ") {
                vec![t.replacen("<?xml ", "<?xml\n", 1), t.replacen("<?xml ", "<?xml\t", 1)]
            } else if !t.starts_with("<?xml") {
                ["\n", "\t", "\r\n", " "].iter().map(|sep| format!("<?xml{}version=\"1.0\"?>{}", sep, t)).collect()
            } else {
                vec![]
            }
        })
        .collect();
    damaged.extend(respelled);
    total += damaged.len() as u64;
    let s = par_slice(&ctx, &damaged, |t, st| {
        let mut xot = Xot::new();
        let r = catch(|| xot.parse(t).map(|_| ()));
        st.evals += 1;
        if let Ok(Err(e)) = r {
            st.bump("errors_checked");
            if let Err(d) = error_span_ok(t, &e) {
                st.fail(&json!({"text": t}), Fail::new(format!("{}|{}", if d.starts_with("ROWCOL ") { "error-position-outside-source|row-column" } else { "error-span-out-of-bounds" }, crate::props::c01::err_class(&format!("{:?}", e))), d));
            }
        }
    });
    stats = stats.merge(s);
    // error clause (c): the same damaged texts as bytes in a declared single-byte encoding (where they contain
    // characters outside ASCII, so that the decoded text is longer than the byte source): the source is the byte slice
    let byte_cases: Vec<Vec<u8>> = damaged
        .iter()
        .filter(|t| !t.is_ascii() && latin1_safe(t) && !t.starts_with("<?xml"))
        .map(|t| {
            let mut b = b"<?xml version=\"1.0\" encoding=\"ISO-8859-1\"?>".to_vec();
            b.extend(t.chars().map(|c| c as u32 as u8));
            b
        })
        .collect();
    let s = par_slice(&ctx, &byte_cases, |b, st| {
        let mut xot = Xot::new();
        let r = catch(|| xot.parse_bytes(b).map(|_| ()));
        st.evals += 1;
        if let Ok(Err(e)) = r {
            st.bump("byte_errors_checked");
            let sp = e.span();
            st.outcome(&("bytes", crate::props::c01::err_class(&format!("{:?}", e)), sp.start, sp.end));
            if !(sp.start <= sp.end && sp.end <= b.len()) {
                st.fail(&json!({"bytes": b}), Fail::new("error-span-out-of-bounds|parse_bytes|offset-into-decoded-text", format!("{:?} reports span {}..{} for a source of {} bytes", e, sp.start, sp.end, b.len())));
            }
        }
    });
    stats = stats.merge(s);
    if let Err(e) = require_nonzero(&stats, &["spellings", "spans_checked", "errors_checked", "byte_errors_checked"]) {
        eprintln!("MACHINERY: {}", e);
        return 2;
    }
    let samples = stats.samples.clone();
    let cov = json!({
        "evaluations": stats.evals,
        "distinct_nontrivial": total,
        "samples": samples,
        "rule": format!("span clause: every abstract document of C02 x every spelling with <= 2 deviations x {{parse_with_span_info, parse_fragment_with_span_info}}; every span the renderer recorded (element start / end, attribute name / value, text run, comment, PI target / content) must exist and equal the recorded byte range; error clause: every rejected string of length <= {} over an 18-symbol markup alphabet (parse and parse_fragment) and every single-character damage / truncation of the default spellings: ParseError::span() lies inside the source; the damaged texts with characters outside ASCII also as ISO-8859-1 bytes through parse_bytes (the source is the byte slice); distinct = distinct (document, spelling) pairs plus distinct (error variant, reported span) triples", l),
    });
    ctx.finish(stats, cov, vec!["the renderer's offset table is the oracle".into()])
}
