//! C04 Every reachable forest is structurally valid and handles stay meaningful.
//! E-BFS over the whole mutating alphabet with every argument tuple of live handles (refused calls included);
//! oracle = invariants I1..I6 on every state reached by a call that returned.
use crate::atree::*;
use crate::bfs::*;
use crate::common::*;
use crate::gen::*;
use crate::histcommon::*;
use crate::inv::*;
use crate::world::*;
use serde_json::json;

pub type Case = HistoryCase;

pub struct C04;

impl Oracle for C04 {
    fn ops(&self, _w: &World, forest: &[A], _depth: usize) -> Vec<Op> {
        all_ops(forest, OpMenu::full())
    }
    fn judge(&self, s: Step, st: &mut Stats) -> Verdict {
        let mut fails = vec![];
        if let Outcome::Panic(_) = s.outcome {
            // a panicking call is C06's subject; the branch ends here
            return Verdict { fails, expand: false };
        }
        let call = call_signature(s.pre, s.pre_forest, s.op);
        let ctx = |detail: &str| format!("{} on [{}] -> {:?}: {}", format!("{:?}", s.op), forest_show(s.pre_forest), s.outcome, detail);
        for h in s.resurrected {
            fails.push(Fail::new(format!("I6-is_removed-becomes-false|{}", s.op.name()), ctx(&format!("is_removed(#{}) was true and is false again", h + 1))));
        }
        match s.post_forest {
            Err(e) => {
                let cls = if e.contains("panicked") { "I1-accessor-panics" } else { "I1-cycle-or-unbounded" };
                fails.push(Fail::new(format!("{}|{}", cls, call), ctx(e)));
            }
            Ok(pf) => {
                let mut inv = vec![];
                match catch(|| check_invariants(s.post, pf, &mut inv)) {
                    Err(p) => fails.push(Fail::new(format!("I1-accessor-panics|{}", call), ctx(&p))),
                    Ok(()) => {
                        // one failure per clause
                        let mut seen = std::collections::BTreeSet::new();
                        for i in inv {
                            if seen.insert(i.clause.clone()) {
                                fails.push(Fail::new(format!("{}|{}", i.clause, call), ctx(&format!("{} ; after: [{}]", i.detail, forest_show(pf)))));
                            }
                        }
                    }
                }
                // I6 value stability: handles the call does not target keep their value
                let args = s.op.args();
                let arg_ids: Vec<u32> = args.iter().map(|h| *h as u32 + 1).collect();
                let rel = relations(s.pre_forest);
                let updates_existing = matches!(s.op, Op::AppendAttrNode(..) | Op::AppendNsNode(..) | Op::AnyAppend(..));
                let mut pre_nodes = vec![];
                for t in s.pre_forest {
                    t.walk_all(&mut |n: &A| pre_nodes.push(n));
                }
                for n in pre_nodes {
                    if arg_ids.contains(&n.id) || n.k == K::Text {
                        continue;
                    }
                    let parent = rel.get(&n.id).and_then(|r| r.0);
                    if matches!(n.k, K::Attr | K::Ns) && (updates_existing || parent.map(|p| arg_ids.contains(&p)).unwrap_or(false)) {
                        continue;
                    }
                    if matches!(s.op, Op::TextContentMut(..)) {
                        continue;
                    }
                    if s.post.dead[n.id as usize - 1] {
                        continue;
                    }
                    if let Some(m) = find(pf, n.id) {
                        if m.k != n.k || m.ns != n.ns || m.name != n.name || m.val != n.val {
                            fails.push(Fail::new(format!("I6-value-changed|{}|{}", n.k.name(), call), ctx(&format!("node #{} changed from {} to {}", n.id, n.show(), m.show()))));
                            break;
                        }
                    }
                }
                if pf.iter().any(|t| t.ch.windows(2).any(|p| p[0].k == K::Text && p[1].k == K::Text)) {
                    st.bump("states_with_adjacent_text");
                }
            }
        }
        let expand = fails.is_empty();
        Verdict { fails, expand }
    }
}

const WEAR_LINE: &str = "line:slot-wear:";
const WEAR_SIGNATURE: &str = "I6-is_removed-becomes-false|one-arena-slot-reused-more-than-32767-times";

/// One line of states: a text node is created and removed over and over (the arena hands out the same slot each time).
/// The handle of the very first node, and of one node out of every 4096, must stay removed for ever. Returns the first
/// cycle after which one of them is live again.
fn slot_wear_line(cycles: u32) -> Option<(u32, String)> {
    let mut xot = xot::Xot::new();
    let mut watched: Vec<(u32, xot::Node)> = vec![];
    for i in 0..cycles {
        let n = xot.new_text("t");
        for (born, w) in &watched {
            if !xot.is_removed(*w) {
                return Some((i, format!("the node created in cycle {} and removed at once is live again in cycle {} (is_removed == false; it compares equal to the node just created: {})", born, i, *w == n)));
            }
        }
        if xot.remove(n).is_err() {
            return Some((i, "remove of a fresh text node failed".into()));
        }
        if i % 4096 == 0 {
            watched.push((i, n));
        }
    }
    None
}

pub fn eval(case: &Case) -> Vec<Fail> {
    if let Some(n) = case.start.name.strip_prefix(WEAR_LINE) {
        let cycles: u32 = n.parse().unwrap_or(0);
        return match slot_wear_line(cycles) {
            Some((_, d)) => vec![Fail::new(WEAR_SIGNATURE, d)],
            None => vec![],
        };
    }
    replay_history(&C04, case)
}

/// depth-1 sweep from every small tree (Acto: start from non-initial states)
fn sweep_starts(tier: Tier) -> Vec<Start> {
    let al = TreeAlphabet {
        elements: vec![A::el("", "a"), A::el("", "b").attr("", "k", "1").decl("p", crate::nsscope::X)],
        leaves: vec![A::text("t"), A::comment("c")],
        adjacent_text: false,
    };
    let n = tier.pick(4, 5);
    let mut out = vec![];
    for k in 1..=n {
        for f in forests(&al, k) {
            out.push(Start { name: format!("sweep:{}", forest_show(&[A::doc(f.clone())])), forest: vec![A::doc(f), A::text("u"), A::el("", "e")], adjacent_text: false, consolidation: true, parse: vec![] });
        }
    }
    out
}

pub fn run(tier: Tier) -> i32 {
    let ctx = Ctx::new("C04", tier, "model_checking");
    let depth = tier.pick(2, 3);
    let st = match tier {
        Tier::Quick => starts(),
        Tier::Thorough => starts(),
    };
    let mut r = bfs(&ctx, &C04, &st, depth);
    let tiny = tiny_starts();
    let rt = bfs(&ctx, &C04, &tiny, depth + 1);
    r.stats = r.stats.merge(rt.stats);
    r.states += rt.states;
    r.transitions += rt.transitions;
    r.levels.extend(rt.levels);
    let sw = sweep_starts(tier);
    let r2 = sweep_depth1(&ctx, &C04, &sw);
    r.stats = r.stats.merge(r2.stats);
    r.states += r2.states;
    r.transitions += r2.transitions;
    // the line of 70 000 create / remove cycles on one arena slot (beyond any 16-bit generation counter)
    {
        let cycles = 70_000u32;
        r.stats.evals += cycles as u64;
        r.stats.add("slot_wear_cycles", cycles as u64);
        if let Some((at, d)) = slot_wear_line(cycles) {
            let case = HistoryCase { start: Start { name: format!("{}{}", WEAR_LINE, at + 1), forest: vec![], adjacent_text: false, consolidation: true, parse: vec![] }, ops: vec![] };
            r.stats.fail(&case, Fail::new(WEAR_SIGNATURE, d));
        }
    }
    if let Err(e) = require_nonzero(&r.stats, &["calls_ok", "calls_refused", "transitions"]) {
        eprintln!("MACHINERY: {}", e);
        return 2;
    }
    let cov = json!({
        "states": r.states,
        "transitions": r.transitions,
        "traces_validated_against_impl": r.transitions,
        "rule": "states = distinct canonical forests (sorted multiset of canonical trees + consolidation bits + capped stale-handle count); every transition is one public API call executed on the real Xot; non-trivial = reached by at least one call that returned",
        "bounds": {"bfs_depth": depth, "starts": st.len(), "tiny_starts_one_level_deeper": tiny.len(), "depth1_sweep_starts": sw.len()},
        "levels_completed": r.levels.iter().filter(|l| !l["start"].as_str().unwrap_or("").starts_with("sweep:")).collect::<Vec<_>>(),
    });
    ctx.finish(r.stats, cov, vec!["the canonical key drops arena slot numbers; stale-handle count (capped at 2) is kept (DESIGN 2.4)".into()])
}
