//! C11 Attribute and namespace views behave as insertion-ordered maps.
//! E-BFS over map-style and node-style updates on one element (with a second element as a source of
//! nodes), reference = ordered Vec<(key, value, node)>; every accessor of both views after every step.
use crate::common::*;
use crate::atree::XML_NS;
use crate::nsscope::{X, Y};
use crate::xmlread::*;
use rayon::prelude::*;
use serde::{Deserialize, Serialize};
use serde_json::json;
use std::collections::{BTreeMap, HashSet};
use xot::{NameId, NamespaceId, Node, PrefixId, Xot};

const AKEYS: [(&str, &str); 3] = [("", "a"), ("", "b"), (X, "c")];
// the empty string is a value like any other (and equals the "value" of an absent key under unwrap_or_default)
const AVALS: [&str; 2] = ["", "2"];
const PKEYS: [&str; 3] = ["", "p", "q"];
// the XML namespace as a value: no prefix but xml may be bound to it, so an entry like that can only be refused by
// the serialiser, never dropped
const PVALS: [&str; 3] = [X, Y, XML_NS];

#[derive(Clone, Debug, Serialize, Deserialize, PartialEq, Eq, Hash)]
pub enum Op {
    Insert(bool, u8, u8),
    Remove(bool, u8),
    GetMut(bool, u8, u8),
    EntryOrInsert(bool, u8, u8),
    EntryAndModify(bool, u8, u8),
    EntryInsert(bool, u8, u8),
    EntryRemove(bool, u8),
    Clear(bool),
    SetFn(bool, u8, u8),
    RemoveFn(bool, u8),
    AppendFreshNode(bool, u8, u8),
    AnyAppendFreshNode(bool, u8, u8),
    AppendNodeFromOther(bool, u8),
    AnyAppendNodeFromOther(bool, u8),
    DetachNode(bool, u8),
    RemoveNode(bool, u8),
    /// the value setter of the node behind an entry (attribute_node_mut / namespace_node_mut)
    NodeSetValue(bool, u8, u8),
    /// append the i-th node of the element's own map to the element again (append_*_node / any_append)
    ReappendOwnNode(bool, u8, bool),
}
// first field: true = attributes, false = namespaces

#[derive(Clone, Serialize, Deserialize)]
pub struct Case {
    /// number of namespace nodes and attribute nodes the element starts with
    pub start: (u8, u8),
    pub ops: Vec<Op>,
}

#[derive(Clone, Debug, PartialEq)]
struct Entry {
    key: u8,
    val: String,
    node: Node,
}

struct Sys {
    xot: Xot,
    e: Node,
    other: Node,
    akeys: Vec<NameId>,
    pkeys: Vec<PrefixId>,
    pvals: Vec<NamespaceId>,
    // model
    attrs: Vec<Entry>,
    nss: Vec<Entry>,
    oattrs: Vec<Entry>,
    onss: Vec<Entry>,
}

fn build(start: (u8, u8)) -> Sys {
    let mut xot = Xot::new();
    let en = xot.add_name("e");
    let e = xot.new_element(en);
    let other = xot.new_element(en);
    let akeys: Vec<NameId> = AKEYS
        .iter()
        .map(|(ns, l)| {
            let n = xot.add_namespace(ns);
            xot.add_name_ns(l, n)
        })
        .collect();
    let pkeys: Vec<PrefixId> = PKEYS.iter().map(|p| xot.add_prefix(p)).collect();
    let pvals: Vec<NamespaceId> = PVALS.iter().map(|u| xot.add_namespace(u)).collect();
    // the element is attached: its parent declares p -> X and q -> Y, so that a binding "already in scope"
    // and a declaration "on the element" are different things
    let parent = xot.new_element(en);
    xot.set_namespace(parent, pkeys[1], pvals[0]);
    xot.set_namespace(parent, pkeys[2], pvals[1]);
    xot.append(parent, e).unwrap();
    let mut s = Sys { xot, e, other, akeys, pkeys, pvals, attrs: vec![], nss: vec![], oattrs: vec![], onss: vec![] };
    for i in 0..start.0 {
        // namespace nodes p, q (so that {X}c can be serialised when p is bound to X)
        let k = 1 + i;
        let n = s.xot.new_namespace_node(s.pkeys[k as usize], s.pvals[0]);
        s.xot.append_namespace_node(e, n).unwrap();
        s.nss.push(Entry { key: k, val: PVALS[0].into(), node: n });
    }
    for i in 0..start.1 {
        let n = s.xot.new_attribute_node(s.akeys[i as usize], "0".to_string());
        s.xot.append_attribute_node(e, n).unwrap();
        s.attrs.push(Entry { key: i, val: "0".into(), node: n });
    }
    // the other element: attributes a, c and namespaces "", q
    for k in [0u8, 2] {
        let n = s.xot.new_attribute_node(s.akeys[k as usize], "9".to_string());
        s.xot.append_attribute_node(other, n).unwrap();
        s.oattrs.push(Entry { key: k, val: "9".into(), node: n });
    }
    for k in [0u8, 2] {
        let n = s.xot.new_namespace_node(s.pkeys[k as usize], s.pvals[1]);
        s.xot.append_namespace_node(other, n).unwrap();
        s.onss.push(Entry { key: k, val: PVALS[1].into(), node: n });
    }
    s
}

fn val(attr: bool, v: u8) -> String {
    if attr {
        AVALS[v as usize].to_string()
    } else {
        PVALS[v as usize].to_string()
    }
}

impl Sys {
    /// apply on the real code and on the model; returns a description of a return-value mismatch
    fn apply(&mut self, op: &Op) -> Result<(), String> {
        use Op::*;
        let e = self.e;
        macro_rules! both {
            ($attr:expr, $amap:expr, $nmap:expr) => {
                if $attr {
                    $amap
                } else {
                    $nmap
                }
            };
        }
        let model = |s: &mut Sys, attr: bool| -> *mut Vec<Entry> { if attr { &mut s.attrs } else { &mut s.nss } };
        match op {
            Insert(attr, k, v) | SetFn(attr, k, v) | EntryInsert(attr, k, v) => {
                let vs = val(*attr, *v);
                let ret: Option<String> = match op {
                    Insert(..) => both!(
                        *attr,
                        self.xot.attributes_mut(e).insert(self.akeys[*k as usize], vs.clone()),
                        self.xot.namespaces_mut(e).insert(self.pkeys[*k as usize], self.pvals[*v as usize]).map(|n| self.xot.namespace_str(n).to_string())
                    ),
                    SetFn(..) => {
                        both!(*attr, self.xot.set_attribute(e, self.akeys[*k as usize], vs.clone()), self.xot.set_namespace(e, self.pkeys[*k as usize], self.pvals[*v as usize]));
                        None
                    }
                    _ => {
                        if *attr {
                            let mut m = self.xot.attributes_mut(e);
                            match m.entry(self.akeys[*k as usize]) {
                                xot::Entry::Occupied(mut o) => Some(o.insert(vs.clone())),
                                xot::Entry::Vacant(va) => {
                                    va.insert(vs.clone());
                                    None
                                }
                            }
                        } else {
                            let nv = self.pvals[*v as usize];
                            let mut m = self.xot.namespaces_mut(e);
                            let r = match m.entry(self.pkeys[*k as usize]) {
                                xot::Entry::Occupied(mut o) => Some(o.insert(nv)),
                                xot::Entry::Vacant(va) => {
                                    va.insert(nv);
                                    None
                                }
                            };
                            r.map(|n| self.xot.namespace_str(n).to_string())
                        }
                    }
                };
                let m = unsafe_mut(model(self, *attr));
                let exp_ret = match m.iter_mut().find(|x| x.key == *k) {
                    Some(x) => Some(std::mem::replace(&mut x.val, vs.clone())),
                    None => {
                        let node = self.lookup_node(*attr, *k).ok_or("inserted key has no node")?;
                        m.push(Entry { key: *k, val: vs, node });
                        None
                    }
                };
                if !matches!(op, SetFn(..)) && ret != exp_ret {
                    return Err(format!("return value {:?}, expected {:?}", ret, exp_ret));
                }
            }
            Remove(attr, k) | RemoveFn(attr, k) | EntryRemove(attr, k) => {
                let ret: Option<String> = match op {
                    Remove(..) => both!(
                        *attr,
                        self.xot.attributes_mut(e).remove(self.akeys[*k as usize]),
                        self.xot.namespaces_mut(e).remove(self.pkeys[*k as usize]).map(|n| self.xot.namespace_str(n).to_string())
                    ),
                    RemoveFn(..) => {
                        both!(*attr, self.xot.remove_attribute(e, self.akeys[*k as usize]), self.xot.remove_namespace(e, self.pkeys[*k as usize]));
                        None
                    }
                    _ => {
                        if *attr {
                            let mut m = self.xot.attributes_mut(e);
                            match m.entry(self.akeys[*k as usize]) {
                                xot::Entry::Occupied(o) => Some(o.remove()),
                                xot::Entry::Vacant(_) => None,
                            }
                        } else {
                            let mut m = self.xot.namespaces_mut(e);
                            let r = match m.entry(self.pkeys[*k as usize]) {
                                xot::Entry::Occupied(o) => Some(o.remove()),
                                xot::Entry::Vacant(_) => None,
                            };
                            r.map(|n| self.xot.namespace_str(n).to_string())
                        }
                    }
                };
                let m = unsafe_mut(model(self, *attr));
                let exp_ret = m.iter().position(|x| x.key == *k).map(|i| m.remove(i).val);
                if !matches!(op, RemoveFn(..)) && ret != exp_ret {
                    return Err(format!("return value {:?}, expected {:?}", ret, exp_ret));
                }
            }
            NodeSetValue(attr, k, v) => {
                let vs = val(*attr, *v);
                let m = unsafe_mut(model(self, *attr));
                if let Some(x) = m.iter_mut().find(|x| x.key == *k) {
                    let node = x.node;
                    let ok = if *attr {
                        self.xot.attribute_node_mut(node).map(|a| a.set_value(vs.clone())).is_some()
                    } else {
                        let nv = self.pvals[*v as usize];
                        self.xot.namespace_node_mut(node).map(|n| n.set_namespace(nv)).is_some()
                    };
                    if !ok {
                        return Err("the node behind an entry is not an attribute / namespace node".into());
                    }
                    x.val = vs;
                }
            }
            GetMut(attr, k, v) => {
                let vs = val(*attr, *v);
                let found = if *attr {
                    match self.xot.attributes_mut(e).get_mut(self.akeys[*k as usize]) {
                        Some(x) => {
                            *x = vs.clone();
                            true
                        }
                        None => false,
                    }
                } else {
                    let nv = self.pvals[*v as usize];
                    match self.xot.namespaces_mut(e).get_mut(self.pkeys[*k as usize]) {
                        Some(x) => {
                            *x = nv;
                            true
                        }
                        None => false,
                    }
                };
                let m = unsafe_mut(model(self, *attr));
                let exp = match m.iter_mut().find(|x| x.key == *k) {
                    Some(x) => {
                        x.val = vs;
                        true
                    }
                    None => false,
                };
                if found != exp {
                    return Err(format!("get_mut found={} expected {}", found, exp));
                }
            }
            EntryOrInsert(attr, k, v) | EntryAndModify(attr, k, v) => {
                let vs = val(*attr, *v);
                let modify = matches!(op, EntryAndModify(..));
                let other_v = val(*attr, 1 - *v);
                let got: String = if *attr {
                    let mut m = self.xot.attributes_mut(e);
                    let en = m.entry(self.akeys[*k as usize]);
                    if modify {
                        en.and_modify(|x| *x = other_v.clone()).or_insert(vs.clone()).clone()
                    } else {
                        en.or_insert(vs.clone()).clone()
                    }
                } else {
                    let nv = self.pvals[*v as usize];
                    let ov = self.pvals[(1 - *v) as usize];
                    let mut m = self.xot.namespaces_mut(e);
                    let en = m.entry(self.pkeys[*k as usize]);
                    let r = if modify { *en.and_modify(|x| *x = ov).or_insert(nv) } else { *en.or_insert(nv) };
                    self.xot.namespace_str(r).to_string()
                };
                let m = unsafe_mut(model(self, *attr));
                let exp = match m.iter_mut().find(|x| x.key == *k) {
                    Some(x) => {
                        if modify {
                            x.val = other_v;
                        }
                        x.val.clone()
                    }
                    None => {
                        let node = self.lookup_node(*attr, *k).ok_or("inserted key has no node")?;
                        m.push(Entry { key: *k, val: vs.clone(), node });
                        vs
                    }
                };
                if got != exp {
                    return Err(format!("entry returned {:?}, expected {:?}", got, exp));
                }
            }
            Clear(attr) => {
                both!(*attr, self.xot.attributes_mut(e).clear(), self.xot.namespaces_mut(e).clear());
                unsafe_mut(model(self, *attr)).clear();
            }
            AppendFreshNode(attr, k, v) | AnyAppendFreshNode(attr, k, v) => {
                let vs = val(*attr, *v);
                let n = if *attr { self.xot.new_attribute_node(self.akeys[*k as usize], vs.clone()) } else { self.xot.new_namespace_node(self.pkeys[*k as usize], self.pvals[*v as usize]) };
                let r = if matches!(op, AnyAppendFreshNode(..)) {
                    self.xot.any_append(e, n)
                } else if *attr {
                    self.xot.append_attribute_node(e, n)
                } else {
                    self.xot.append_namespace_node(e, n)
                };
                let r = r.map_err(|e| format!("unexpected Err {:?}", e))?;
                let m = unsafe_mut(model(self, *attr));
                let exp_node = match m.iter_mut().find(|x| x.key == *k) {
                    Some(x) => {
                        x.val = vs;
                        x.node
                    }
                    None => {
                        m.push(Entry { key: *k, val: vs, node: n });
                        n
                    }
                };
                if r != exp_node {
                    return Err("returned node is not the node that now holds the key".into());
                }
            }
            AppendNodeFromOther(attr, i) | AnyAppendNodeFromOther(attr, i) => {
                let src = if *attr { &self.oattrs } else { &self.onss };
                let Some(ent) = src.get(*i as usize).cloned() else { return Ok(()) };
                let r = if matches!(op, AnyAppendNodeFromOther(..)) {
                    self.xot.any_append(e, ent.node)
                } else if *attr {
                    self.xot.append_attribute_node(e, ent.node)
                } else {
                    self.xot.append_namespace_node(e, ent.node)
                };
                let r = r.map_err(|e| format!("unexpected Err {:?}", e))?;
                let m = unsafe_mut(model(self, *attr));
                let exp_node = match m.iter_mut().find(|x| x.key == ent.key) {
                    Some(x) => {
                        // existing key: the entry keeps its node and position and takes the value. Whether the node
                        // that was passed in stays on the other element or is consumed is not pinned by the
                        // property: the model follows what is observed on the other element.
                        x.val = ent.val.clone();
                        let still_there = if *attr { self.xot.attributes(self.other).nodes().any(|n| n == ent.node) } else { self.xot.namespaces(self.other).nodes().any(|n| n == ent.node) };
                        if !still_there {
                            let src = if *attr { &mut self.oattrs } else { &mut self.onss };
                            src.retain(|y| y.node != ent.node);
                        }
                        x.node
                    }
                    None => {
                        m.push(ent.clone());
                        let src = if *attr { &mut self.oattrs } else { &mut self.onss };
                        src.retain(|x| x.node != ent.node);
                        ent.node
                    }
                };
                if r != exp_node {
                    return Err("returned node is not the node that now holds the key".into());
                }
            }
            ReappendOwnNode(attr, i, any) => {
                let m = unsafe_mut(model(self, *attr));
                let Some(ent) = m.get(*i as usize).cloned() else { return Ok(()) };
                let r = if *any {
                    self.xot.any_append(e, ent.node)
                } else if *attr {
                    self.xot.append_attribute_node(e, ent.node)
                } else {
                    self.xot.append_namespace_node(e, ent.node)
                };
                let r = r.map_err(|e| format!("unexpected Err {:?}", e))?;
                // the node already holds its key on this element: nothing changes
                if r != ent.node {
                    return Err("re-appending a node of the map returns another node".into());
                }
            }
            DetachNode(attr, i) | RemoveNode(attr, i) => {
                let m = unsafe_mut(model(self, *attr));
                if (*i as usize) >= m.len() {
                    return Ok(());
                }
                let ent = m.remove(*i as usize);
                let r = if matches!(op, DetachNode(..)) { self.xot.detach(ent.node) } else { self.xot.remove(ent.node) };
                r.map_err(|e| format!("unexpected Err {:?}", e))?;
            }
        }
        Ok(())
    }

    fn lookup_node(&self, attr: bool, k: u8) -> Option<Node> {
        if attr {
            self.xot.attributes(self.e).get_node(self.akeys[k as usize])
        } else {
            self.xot.namespaces(self.e).get_node(self.pkeys[k as usize])
        }
    }

    /// compare every accessor of both views of both maps with the model
    fn observe(&mut self, st: &mut Stats) -> Vec<(String, String)> {
        let mut out = vec![];
        let e = self.e;
        // ---- attributes
        {
            let exp_vec: Vec<(NameId, String)> = self.attrs.iter().map(|x| (self.akeys[x.key as usize], x.val.clone())).collect();
            let exp_nodes: Vec<Node> = self.attrs.iter().map(|x| x.node).collect();
            let exp_map: BTreeMap<u16, String> = self.attrs.iter().map(|x| (x.key as u16, x.val.clone())).collect();
            let keyidx = |n: NameId| self.akeys.iter().position(|k| *k == n).map(|i| i as u16).unwrap_or(99);
            macro_rules! view {
                ($v:expr, $name:expr) => {{
                    let v = $v;
                    st.evals += 1;
                    let mut c = |what: &str, ok: bool| {
                        if !ok {
                            out.push((format!("attributes|{}|{}", $name, what), String::new()));
                        }
                    };
                    c("len", v.len() == exp_vec.len());
                    c("is_empty", v.is_empty() == exp_vec.is_empty());
                    for (i, k) in self.akeys.iter().enumerate() {
                        let ex = self.attrs.iter().find(|x| x.key as usize == i);
                        c("contains_key", v.contains_key(*k) == ex.is_some());
                        c("get", v.get(*k).cloned() == ex.map(|x| x.val.clone()));
                        c("get_node", v.get_node(*k) == ex.map(|x| x.node));
                    }
                    c("iter", v.iter().map(|(k, x)| (k, x.clone())).collect::<Vec<_>>() == exp_vec);
                    c("keys", v.keys().collect::<Vec<_>>() == exp_vec.iter().map(|x| x.0).collect::<Vec<_>>());
                    c("values", v.values().cloned().collect::<Vec<_>>() == exp_vec.iter().map(|x| x.1.clone()).collect::<Vec<_>>());
                    c("nodes", v.nodes().collect::<Vec<_>>() == exp_nodes);
                    c("to_vec", v.to_vec() == exp_vec);
                    let hm: BTreeMap<u16, String> = v.to_hashmap().into_iter().map(|(k, x)| (keyidx(k), x)).collect();
                    c("to_hashmap", hm == exp_map);
                }};
            }
            view!(self.xot.attributes(e), "read-only");
            view!(self.xot.attributes_mut(e), "mutable");
            // the convenience accessors of Xot over the same view
            for (i, k) in self.akeys.iter().enumerate() {
                let ex = self.attrs.iter().find(|x| x.key as usize == i);
                if self.xot.get_attribute(e, *k).map(|x| x.to_string()) != ex.map(|x| x.val.clone()) {
                    out.push(("attributes|xot|get_attribute".into(), String::new()));
                }
            }
            if self.xot.attribute_nodes(e).collect::<Vec<_>>() != exp_nodes {
                out.push(("attributes|xot|attribute_nodes".into(), String::new()));
            }
        }
        // ---- namespaces
        {
            let exp_vec: Vec<(PrefixId, NamespaceId)> =
                self.nss.iter().map(|x| (self.pkeys[x.key as usize], self.pvals[PVALS.iter().position(|u| *u == x.val).unwrap()])).collect();
            let exp_nodes: Vec<Node> = self.nss.iter().map(|x| x.node).collect();
            let pidx = |p: PrefixId| self.pkeys.iter().position(|k| *k == p).map(|i| i as u16).unwrap_or(99);
            let exp_map: BTreeMap<u16, NamespaceId> = exp_vec.iter().map(|(p, n)| (pidx(*p), *n)).collect();
            macro_rules! view {
                ($v:expr, $name:expr) => {{
                    let v = $v;
                    st.evals += 1;
                    let mut c = |what: &str, ok: bool| {
                        if !ok {
                            out.push((format!("namespaces|{}|{}", $name, what), String::new()));
                        }
                    };
                    c("len", v.len() == exp_vec.len());
                    c("is_empty", v.is_empty() == exp_vec.is_empty());
                    for (i, k) in self.pkeys.iter().enumerate() {
                        let ex = exp_vec.iter().position(|x| x.0 == *k);
                        let _ = i;
                        c("contains_key", v.contains_key(*k) == ex.is_some());
                        c("get", v.get(*k).copied() == ex.map(|j| exp_vec[j].1));
                        c("get_node", v.get_node(*k) == ex.map(|j| exp_nodes[j]));
                    }
                    c("iter", v.iter().map(|(k, x)| (k, *x)).collect::<Vec<_>>() == exp_vec);
                    c("keys", v.keys().collect::<Vec<_>>() == exp_vec.iter().map(|x| x.0).collect::<Vec<_>>());
                    c("values", v.values().copied().collect::<Vec<_>>() == exp_vec.iter().map(|x| x.1).collect::<Vec<_>>());
                    c("nodes", v.nodes().collect::<Vec<_>>() == exp_nodes);
                    c("to_vec", v.to_vec() == exp_vec);
                    let hm: BTreeMap<u16, NamespaceId> = v.to_hashmap().into_iter().map(|(k, x)| (pidx(k), x)).collect();
                    c("to_hashmap", hm == exp_map);
                }};
            }
            view!(self.xot.namespaces(e), "read-only");
            view!(self.xot.namespaces_mut(e), "mutable");
            for k in self.pkeys.iter() {
                let ex = exp_vec.iter().find(|x| x.0 == *k).map(|x| x.1);
                if self.xot.get_namespace(e, *k) != ex {
                    out.push(("namespaces|xot|get_namespace".into(), String::new()));
                }
            }
            if self.xot.namespace_declarations(e) != exp_vec {
                out.push(("namespaces|xot|namespace_declarations".into(), String::new()));
            }
            let pf = self.xot.prefixes(e);
            if pf.len() != exp_vec.len() || exp_vec.iter().any(|(p, n)| pf.get(p) != Some(n)) {
                out.push(("namespaces|xot|prefixes".into(), String::new()));
            }
        }
        // ---- the other element keeps what the model says (nodes that were not moved stay)
        {
            let on: Vec<Node> = self.xot.attributes(self.other).nodes().collect();
            if on != self.oattrs.iter().map(|x| x.node).collect::<Vec<_>>() {
                out.push(("other-element|attributes".into(), String::new()));
            }
            let on: Vec<Node> = self.xot.namespaces(self.other).nodes().collect();
            if on != self.onss.iter().map(|x| x.node).collect::<Vec<_>>() {
                out.push(("other-element|namespaces".into(), String::new()));
            }
        }
        // ---- serialisation order: declarations then attributes, in map order
        st.evals += 1;
        if let Ok(text) = self.xot.to_string(e) {
            st.bump("serialised");
            match read_fragment(&text) {
                Read::WellFormed(d) => {
                    let el = &d.ch[0];
                    let exp_ns: Vec<(String, String)> = self.nss.iter().map(|x| (PKEYS[x.key as usize].to_string(), x.val.clone())).collect();
                    // the element is serialised in place: bindings inherited from the parent (p -> X, q -> Y)
                    // that the element does not redeclare may be written anywhere among its own declarations, in
                    // any order (they are not entries of the element's map; the property orders the map's entries)
                    let inherited = [("p".to_string(), X.to_string()), ("q".to_string(), Y.to_string())];
                    let mut got_ns: Vec<(String, String)> = el.nss.iter().map(|n| (n.name.clone(), n.ns.clone())).collect();
                    got_ns.retain(|g| !(inherited.contains(g) && !exp_ns.iter().any(|e| e.0 == g.0)));
                    if got_ns != exp_ns {
                        out.push(("to_string|declaration-order".into(), format!("{:?}: declarations {:?}, map order {:?}", text, got_ns, exp_ns)));
                    }
                    let got_at: Vec<(String, String, String)> = el.attrs.iter().map(|a| (a.ns.clone(), a.name.clone(), a.val.clone().unwrap_or_default())).collect();
                    let exp_at: Vec<(String, String, String)> = self.attrs.iter().map(|x| (AKEYS[x.key as usize].0.to_string(), AKEYS[x.key as usize].1.to_string(), x.val.clone())).collect();
                    if got_at != exp_at {
                        out.push(("to_string|attribute-order".into(), format!("{:?}: attributes {:?}, map order {:?}", text, got_at, exp_at)));
                    }
                    // declarations are written before attributes
                    if let (Some(lastx), Some(firsta)) = (text.rfind("xmlns"), self.attrs.first().and_then(|x| text.find(&format!("{}=\"", AKEYS[x.key as usize].1)))) {
                        if lastx > firsta {
                            out.push(("to_string|declarations-after-attributes".into(), text.clone()));
                        }
                    }
                }
                other => out.push(("to_string|unreadable".into(), format!("{:?}: {:?}", text, other))),
            }
        }
        out
    }

    fn key(&self) -> String {
        let f = |v: &Vec<Entry>| v.iter().map(|x| format!("{}={}", x.key, x.val)).collect::<Vec<_>>().join(",");
        format!("A[{}] N[{}] OA[{}] ON[{}]", f(&self.attrs), f(&self.nss), f(&self.oattrs), f(&self.onss))
    }
}

#[allow(clippy::mut_from_ref)]
fn unsafe_mut<'a>(p: *mut Vec<Entry>) -> &'a mut Vec<Entry> {
    // the model vectors are disjoint from the Xot borrowed in the same statement; raw pointer only to
    // side-step the borrow checker inside the big match (no aliasing: single thread, distinct fields)
    unsafe { &mut *p }
}

fn all_ops() -> Vec<Op> {
    use Op::*;
    let mut v = vec![];
    for attr in [true, false] {
        for k in 0..3u8 {
            for val in 0..2u8 {
                v.push(Insert(attr, k, val));
                v.push(GetMut(attr, k, val));
                v.push(NodeSetValue(attr, k, val));
                v.push(EntryOrInsert(attr, k, val));
                v.push(EntryAndModify(attr, k, val));
                v.push(EntryInsert(attr, k, val));
                v.push(SetFn(attr, k, val));
                v.push(AppendFreshNode(attr, k, val));
                v.push(AnyAppendFreshNode(attr, k, val));
            }
            v.push(Remove(attr, k));
            v.push(EntryRemove(attr, k));
            v.push(RemoveFn(attr, k));
            v.push(DetachNode(attr, k));
            v.push(RemoveNode(attr, k));
        }
        if !attr {
            // a prefix bound to the XML namespace (map-style and node-style)
            for k in 0..3u8 {
                v.push(Insert(false, k, 2));
                v.push(AppendFreshNode(false, k, 2));
            }
        }
        v.push(Clear(attr));
        for i in 0..2u8 {
            v.push(ReappendOwnNode(attr, i, false));
            v.push(ReappendOwnNode(attr, i, true));
            v.push(AppendNodeFromOther(attr, i));
            v.push(AnyAppendNodeFromOther(attr, i));
        }
    }
    v
}

/// replay a history; returns failures of the last step (or of any step if `all`)
fn run_history(start: (u8, u8), ops: &[Op], st: &mut Stats) -> (Vec<Fail>, Option<String>) {
    let mut s = build(start);
    let n = ops.len();
    for (i, op) in ops.iter().enumerate() {
        let r = catch(|| s.apply(op));
        let last = i + 1 == n;
        match r {
            Err(p) => {
                return (if last { vec![Fail::new(format!("panic|{}", opname(op)), format!("{:?}: {}", op, p))] } else { vec![] }, None);
            }
            Ok(Err(m)) => {
                return (if last { vec![Fail::new(format!("return-value|{}", opname(op)), format!("{:?} after {:?}: {}", op, &ops[..i], m))] } else { vec![] }, None);
            }
            Ok(Ok(())) => {}
        }
        if last {
            let obs = match catch(|| s.observe(st)) {
                Ok(o) => o,
                Err(p) => return (vec![Fail::new(format!("panic|observe|{}", opname(op)), p)], None),
            };
            let fails: Vec<Fail> = obs
                .into_iter()
                .map(|(sig, d)| Fail::new(format!("{}|after:{}", sig, opname(op)), format!("history {:?} from start {:?}; model {} {}", ops, start, s.key(), d)))
                .collect();
            if !fails.is_empty() {
                return (fails, None);
            }
        }
    }
    if n == 0 {
        let obs = s.observe(st);
        let fails: Vec<Fail> = obs.into_iter().map(|(sig, d)| Fail::new(format!("{}|start", sig), d)).collect();
        return (fails, Some(s.key()));
    }
    (vec![], Some(s.key()))
}

fn opname(op: &Op) -> String {
    let s = format!("{:?}", op);
    let name = s.split('(').next().unwrap_or("").to_string();
    let attr = s.contains("(true");
    format!("{}:{}", name, if attr { "attributes" } else { "namespaces" })
}

pub fn eval(case: &Case) -> Vec<Fail> {
    let mut st = Stats::default();
    run_history(case.start, &case.ops, &mut st).0
}

pub fn run(tier: Tier) -> i32 {
    let ctx = Ctx::new("C11", tier, "model_checking");
    let depth = tier.pick(4, 6);
    let ops = all_ops();
    let mut total = Stats::default();
    let mut states = 0u64;
    let mut transitions = 0u64;
    let mut levels = vec![];
    for k in 0..3u8 {
        for m in 0..3u8 {
            let start = (k.min(2), m);
            let mut visited: HashSet<String> = HashSet::new();
            let (f0, k0) = run_history(start, &[], &mut total);
            for f in f0 {
                total.fail(&Case { start, ops: vec![] }, f);
            }
            visited.insert(k0.unwrap_or_default());
            let mut frontier: Vec<Vec<Op>> = vec![vec![]];
            for d in 0..depth {
                if ctx.expired() {
                    total.capped = true;
                    break;
                }
                let results: Vec<(Stats, Vec<(String, Vec<Op>)>)> = frontier
                    .par_iter()
                    .map(|hist| {
                        let mut st = Stats::default();
                        let mut succ = vec![];
                        for op in &ops {
                            let mut h = hist.clone();
                            h.push(op.clone());
                            let (fails, key) = run_history(start, &h, &mut st);
                            st.bump("transitions");
                            if !fails.is_empty() {
                                for f in fails {
                                    st.fail(&Case { start, ops: h.clone() }, f);
                                }
                            } else if let Some(key) = key {
                                st.outcome(&(start, &key));
                                succ.push((key, h));
                            }
                        }
                        if st.counters.get("transitions").copied().unwrap_or(0) > 0 && hist.len() == 2 {
                            st.sample(|| json!({"start": format!("{:?}", start), "history": format!("{:?}", hist)}));
                        }
                        (st, succ)
                    })
                    .collect();
                let mut cands: BTreeMap<String, Vec<Op>> = BTreeMap::new();
                let mut lt = 0;
                for (st, succ) in results {
                    lt += st.counters.get("transitions").copied().unwrap_or(0);
                    total = total.merge(st);
                    for (key, h) in succ {
                        if visited.contains(&key) {
                            continue;
                        }
                        match cands.get(&key) {
                            Some(old) if format!("{:?}", old) <= format!("{:?}", h) => {}
                            _ => {
                                cands.insert(key, h);
                            }
                        }
                    }
                }
                transitions += lt;
                for key in cands.keys() {
                    visited.insert(key.clone());
                }
                levels.push(json!({"start": format!("{:?}", start), "depth": d + 1, "frontier": frontier.len(), "transitions": lt, "new_states": cands.len()}));
                frontier = cands.into_values().collect();
                if frontier.is_empty() {
                    break;
                }
            }
            states += visited.len() as u64;
        }
    }
    if let Err(e) = require_nonzero(&total, &["transitions", "serialised"]) {
        eprintln!("MACHINERY: {}", e);
        return 2;
    }
    let cov = json!({
        "states": states,
        "transitions": transitions,
        "traces_validated_against_impl": transitions,
        "rule": "element starting with 0-2 namespace nodes and 0-2 attribute nodes (9 starts), a second element as source of nodes; every history up to the depth bound over map-style (insert, remove, get_mut, entry or_insert / and_modify / occupied insert / occupied remove / vacant insert, clear, set_*, remove_*) and node-style (append_*_node / any_append with fresh nodes and with nodes of the other element, re-appending a node of the map itself, detach / remove of a node, the value setter of the node behind an entry) updates with 3 keys x 2 values per map; after every step every accessor of the read-only and of the mutable view of both maps and Xot's convenience accessors over them (get_attribute, attribute_nodes, get_namespace, namespace_declarations, prefixes), the return values, node identity and the order in to_string (read by XmlRead) are compared with an ordered reference map; states = distinct (ordered contents of both maps of both elements)",
        "bounds": {"depth": depth, "starts": 9, "ops_per_state": ops.len()},
        "levels_completed": levels,
    });
    ctx.finish(total, cov, vec![])
}
