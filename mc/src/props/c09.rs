//! C09 Namespace scope queries agree with nearest-declaration-wins scoping.
//! E-TREE over namespace layouts x every node x every prefix / namespace.
use crate::atree::*;
use crate::common::*;
use crate::gen::*;
use crate::nsscope::*;
use serde::{Deserialize, Serialize};
use serde_json::json;
use std::collections::{BTreeMap, BTreeSet};
use xot::xmlname::NameStrInfo;
use xot::{Node, Xot};

#[derive(Serialize, Deserialize, Clone)]
pub struct Case {
    pub tree: A,
    pub attached: bool,
}

const PREFIXES: [&str; 5] = ["", "p", "q", "xml", "r"];
const NAMESPACES: [&str; 4] = [X, Y, XML_NS, "urn:z"];

/// names (element and attribute) in the subtree with the scope built from declarations from `top` down only
fn names_with_local_scope<'a>(a: &'a A, local: &Scope, out: &mut Vec<(&'a A, bool, Scope)>) {
    if a.k == K::Elem {
        let s = enter(local, a);
        out.push((a, false, s.clone()));
        for at in &a.attrs {
            out.push((at, true, s.clone()));
        }
        for c in &a.ch {
            names_with_local_scope(c, &s, out);
        }
    } else if a.k == K::Doc {
        for c in &a.ch {
            names_with_local_scope(c, local, out);
        }
    }
}

/// can the expanded name be written at all in this scope (for its kind)?
fn expressible(scope: &Scope, ns: &str, is_attr: bool) -> bool {
    if ns.is_empty() {
        // no prefix: attributes always; elements only where no default namespace is in force
        return is_attr || scope.get("").map(|u| u.is_empty()).unwrap_or(true);
    }
    scope.iter().any(|(p, u)| u == ns && (!p.is_empty() || !is_attr))
}

pub fn eval(case: &Case) -> Vec<Fail> {
    let mut st = Stats::default();
    eval_case(case, &mut st)
}

pub fn eval_case(case: &Case, st: &mut Stats) -> Vec<Fail> {
    let mut fails = vec![];
    let mut xot = Xot::new();
    let mut handles = vec![];
    let tree = if case.attached { A::doc(vec![case.tree.clone()]) } else { case.tree.clone() };
    build(&mut xot, &tree, &mut handles);
    // ids for the query alphabets
    let pids: Vec<_> = PREFIXES.iter().map(|p| xot.add_prefix(p)).collect();
    let nids: Vec<_> = NAMESPACES.iter().map(|n| xot.add_namespace(n)).collect();
    let xot = &xot;

    // walk abstract tree and handles in parallel (walk_all order)
    let mut nodes: Vec<(&A, Scope, Scope)> = vec![]; // (node, scope at node, scope at parent)
    fn walk<'a>(a: &'a A, outer: &Scope, out: &mut Vec<(&'a A, Scope, Scope)>) {
        let s = if a.k == K::Elem { enter(outer, a) } else { outer.clone() };
        out.push((a, s.clone(), outer.clone()));
        for n in a.nss.iter().chain(a.attrs.iter()) {
            out.push((n, s.clone(), s.clone()));
        }
        for c in &a.ch {
            walk(c, &s, out);
        }
    }
    walk(&tree, &base_scope(), &mut nodes);
    assert_eq!(nodes.len(), handles.len());

    let show = || tree.show();
    for (i, (a, scope, parent_scope)) in nodes.iter().enumerate() {
        let h: Node = handles[i];
        let kind = a.k.name();
        // --- namespaces_in_scope
        let got = catch(|| {
            let mut m: BTreeMap<String, Vec<String>> = BTreeMap::new();
            for (p, n) in xot.namespaces_in_scope(h) {
                m.entry(xot.prefix_str(p).to_string()).or_default().push(xot.namespace_str(n).to_string());
            }
            m
        });
        st.evals += 1;
        let exp: BTreeMap<String, Vec<String>> = scope.iter().map(|(p, u)| (p.clone(), vec![u.clone()])).collect();
        match got {
            Err(p) => fails.push(Fail::new(format!("panic|namespaces_in_scope|{}", kind), format!("{} in {}", p, show()))),
            Ok(g) => {
                if g != exp {
                    let feature = diff_feature(&g, &exp);
                    fails.push(Fail::new(
                        format!("in_scope|{}|{}", kind, feature),
                        format!("namespaces_in_scope of {} node #{} in {}: expected {:?} got {:?}", kind, i, show(), exp, g),
                    ));
                }
            }
        }
        // --- namespace_for_prefix
        for (pi, p) in PREFIXES.iter().enumerate() {
            let got = catch(|| xot.namespace_for_prefix(h, pids[pi]).map(|n| xot.namespace_str(n).to_string()));
            st.evals += 1;
            let exp = scope.get(*p).cloned();
            if got.as_ref().ok() != Some(&exp) {
                fails.push(Fail::new(
                    format!("namespace_for_prefix|{}|{}", kind, if p.is_empty() { "default" } else { "prefixed" }),
                    format!("namespace_for_prefix({:?}) at {} node #{} in {}: expected {:?} got {:?}", p, kind, i, show(), exp, got),
                ));
            }
        }
        // --- prefix_for_namespace
        for (ni, ns) in NAMESPACES.iter().enumerate() {
            let got = catch(|| xot.prefix_for_namespace(h, nids[ni]).map(|p| xot.prefix_str(p).to_string()));
            st.evals += 1;
            let candidates: Vec<&String> = scope.iter().filter(|(_, u)| u == ns).map(|(p, _)| p).collect();
            let ok = match &got {
                Ok(Some(p)) => candidates.iter().any(|c| *c == p),
                Ok(None) => candidates.is_empty(),
                Err(_) => false,
            };
            if !ok {
                let clause = match &got {
                    Ok(None) => "none-although-bound",
                    Ok(Some(_)) => "wrong-prefix",
                    Err(_) => "panic",
                };
                fails.push(Fail::new(
                    format!("prefix_for_namespace|{}|{}", kind, clause),
                    format!("prefix_for_namespace({}) at {} node #{} in {}: bound prefixes {:?}, got {:?}", ns, kind, i, show(), candidates, got),
                ));
            }
        }
        // --- is_prefix_defined: observed, must not panic
        for pid in &pids {
            if catch(|| xot.is_prefix_defined(h, *pid)).is_err() {
                fails.push(Fail::new(format!("panic|is_prefix_defined|{}", kind), show()));
            }
        }
        // --- qualified names
        if matches!(a.k, K::Elem | K::Attr) {
            let is_attr = a.k == K::Attr;
            let expanded = (a.ns.clone(), a.name.clone());
            let nsid = xot.namespace(&a.ns).unwrap();
            let name_id = xot.name_ns(&a.name, nsid).unwrap();
            // node_name_ref
            let got = catch(|| xot.node_name_ref(h).map(|o| o.map(|r| (r.prefix().to_string(), r.local_name().to_string(), r.namespace().to_string()))));
            st.evals += 1;
            match got {
                Err(p) => fails.push(Fail::new(format!("panic|node_name_ref|{}", kind), format!("{} in {}", p, show()))),
                Ok(Ok(Some((prefix, local, ns)))) => {
                    let r = resolve(scope, &prefix, is_attr);
                    if r.as_deref() != Some(expanded.0.as_str()) || local != expanded.1 || ns != expanded.0 {
                        fails.push(Fail::new(
                            format!("node_name_ref|{}|{}", kind, qname_feature(&prefix, &expanded.0, is_attr)),
                            format!("node_name_ref of {} #{} in {}: prefix {:?} resolves to {:?}, expanded name is {:?}", kind, i, show(), prefix, r, expanded),
                        ));
                    }
                }
                Ok(Ok(None)) => fails.push(Fail::new(format!("node_name_ref|{}|none", kind), show())),
                Ok(Err(e)) => {
                    st.bump("name_ref_err");
                    if expressible(scope, &expanded.0, is_attr) {
                        fails.push(Fail::new(format!("node_name_ref|{}|refused-although-a-prefix-is-in-scope", kind), format!("node_name_ref of {} #{} in {}: {:?} although scope {:?} can express {:?}", kind, i, show(), e, scope, expanded)));
                    }
                }
            }
            // name_ref(name, context)
            let got = catch(|| xot.name_ref(name_id, h).map(|r| r.prefix().to_string()));
            st.evals += 1;
            match got {
                Err(p) => fails.push(Fail::new(format!("panic|name_ref|{}", kind), format!("{} in {}", p, show()))),
                Ok(Ok(prefix)) => {
                    let r = resolve(scope, &prefix, is_attr);
                    if r.as_deref() != Some(expanded.0.as_str()) {
                        fails.push(Fail::new(
                            format!("name_ref|{}|{}", kind, qname_feature(&prefix, &expanded.0, is_attr)),
                            format!("name_ref of {} #{} in {}: prefix {:?} resolves to {:?}, expanded name is {:?}", kind, i, show(), prefix, r, expanded),
                        ));
                    }
                }
                Ok(Err(e)) => {
                    if expressible(scope, &expanded.0, is_attr) {
                        fails.push(Fail::new(format!("name_ref|{}|refused-although-a-prefix-is-in-scope", kind), format!("name_ref of {} #{} in {}: {:?} although scope {:?} can express {:?}", kind, i, show(), e, scope, expanded)));
                    }
                }
            }
            // full_name(node, name)
            let got = catch(|| xot.full_name(h, name_id));
            st.evals += 1;
            match got {
                Err(p) => fails.push(Fail::new(format!("panic|full_name|{}", kind), format!("{} in {}", p, show()))),
                Ok(Ok(full)) => {
                    let (prefix, local) = match full.split_once(':') {
                        Some((p, l)) => (p.to_string(), l.to_string()),
                        None => (String::new(), full.clone()),
                    };
                    let r = resolve(scope, &prefix, is_attr);
                    if r.as_deref() != Some(expanded.0.as_str()) || local != expanded.1 {
                        fails.push(Fail::new(
                            format!("full_name|{}|{}", kind, qname_feature(&prefix, &expanded.0, is_attr)),
                            format!("full_name of {} #{} in {}: {:?} resolves to {:?}, expanded name is {:?}", kind, i, show(), full, r, expanded),
                        ));
                    } else {
                        st.bump("full_name_ok");
                    }
                }
                Ok(Err(e)) => {
                    st.bump("full_name_err");
                    if expressible(scope, &expanded.0, is_attr) {
                        fails.push(Fail::new(format!("full_name|{}|refused-although-a-prefix-is-in-scope", kind), format!("full_name of {} #{} in {}: {:?} although scope {:?} can express {:?}", kind, i, show(), e, scope, expanded)));
                    }
                }
            }
        }
        // --- unresolved_namespaces / inherited_prefixes (elements and documents)
        if matches!(a.k, K::Elem | K::Doc) {
            let mut names = vec![];
            names_with_local_scope(a, &Scope::new(), &mut names);
            let mut must: BTreeSet<String> = BTreeSet::new();
            let mut may: BTreeSet<String> = BTreeSet::new();
            for (n, is_attr, local) in &names {
                if n.ns.is_empty() || n.ns == XML_NS {
                    continue;
                }
                let any_binding = local.values().any(|u| *u == n.ns);
                let usable = if *is_attr { attr_expressible(local, &n.ns) } else { elem_expressible(local, &n.ns) };
                if !any_binding {
                    must.insert(n.ns.clone());
                }
                if !usable {
                    may.insert(n.ns.clone());
                }
            }
            let got = catch(|| xot.unresolved_namespaces(h).into_iter().map(|n| xot.namespace_str(n).to_string()).collect::<BTreeSet<String>>());
            st.evals += 1;
            match &got {
                Err(p) => fails.push(Fail::new(format!("panic|unresolved_namespaces|{}", kind), format!("{} in {}", p, show()))),
                Ok(g) => {
                    for m in &must {
                        if !g.contains(m) {
                            fails.push(Fail::new(
                                format!("unresolved|{}|missing", kind),
                                format!("unresolved_namespaces of {} #{} in {}: {} has no binding below this node but is not reported: {:?}", kind, i, show(), m, g),
                            ));
                        }
                    }
                    for r in g {
                        if r.is_empty() || r == XML_NS {
                            // "no namespace" is not a namespace that could lack a binding, and the xml prefix is
                            // always bound: neither can be unresolved
                            fails.push(Fail::new(
                                format!("unresolved|{}|{}", kind, if r.is_empty() { "no-namespace-reported" } else { "xml-namespace-reported" }),
                                format!("unresolved_namespaces of {} #{} in {}: reports {:?}", kind, i, show(), g),
                            ));
                            continue;
                        }
                        if !may.contains(r) {
                            fails.push(Fail::new(
                                format!("unresolved|{}|spurious", kind),
                                format!("unresolved_namespaces of {} #{} in {}: {} reported although every name using it has a usable prefix declared at or below this node", kind, i, show(), r),
                            ));
                        }
                    }
                    if !must.is_empty() {
                        st.bump("unresolved_nonempty");
                    }
                }
            }
            let got2 = catch(|| {
                xot.inherited_prefixes(h).into_iter().map(|(p, n)| (xot.prefix_str(p).to_string(), xot.namespace_str(n).to_string())).collect::<BTreeMap<String, String>>()
            });
            st.evals += 1;
            match (&got2, &got) {
                (Err(p), _) => fails.push(Fail::new(format!("panic|inherited_prefixes|{}", kind), format!("{} in {}", p, show()))),
                (Ok(inh), Ok(unres)) => {
                    let pscope: Scope = if i == 0 { Scope::new() } else { parent_scope.clone() };
                    for (p, u) in inh {
                        // i == 0: no parent, nothing can be inherited
                        if pscope.get(p) != Some(u) {
                            fails.push(Fail::new(
                                format!("inherited|{}|not-in-parent-scope", kind),
                                format!("inherited_prefixes of {} #{} in {}: {}={} is not in scope at the parent ({:?})", kind, i, show(), p, u, pscope),
                            ));
                        }
                        // what the node inherits is part of its own scope: a prefix the node redeclares is not inherited
                        if i != 0 && scope.get(p) != Some(u) {
                            fails.push(Fail::new(
                                format!("inherited|{}|shadowed-by-the-node-itself", kind),
                                format!("inherited_prefixes of {} #{} in {}: {}={} is not in scope at the node itself ({:?})", kind, i, show(), p, u, scope),
                            ));
                        }
                        if !unres.contains(u) {
                            fails.push(Fail::new(
                                format!("inherited|{}|not-unresolved", kind),
                                format!("inherited_prefixes of {} #{} in {}: {}={} is not an unresolved namespace ({:?})", kind, i, show(), p, u, unres),
                            ));
                        }
                    }
                    for m in &must {
                        // (a binding of the parent that the node itself redeclares cannot be inherited)
                        if pscope.iter().any(|(p, u)| u == m && !a.nss.iter().any(|d| d.name == *p)) && !inh.values().any(|u| u == m) {
                            fails.push(Fail::new(
                                format!("inherited|{}|missing", kind),
                                format!("inherited_prefixes of {} #{} in {}: {} is needed and bound at the parent ({:?}) but not inherited: {:?}", kind, i, show(), m, pscope, inh),
                            ));
                        }
                    }
                    if !inh.is_empty() {
                        st.bump("inherited_nonempty");
                    }
                }
                _ => {}
            }
        }
    }
    fails
}

fn diff_feature(g: &BTreeMap<String, Vec<String>>, e: &BTreeMap<String, Vec<String>>) -> &'static str {
    if g.values().any(|v| v.len() > 1) {
        return "duplicate-prefix";
    }
    for (p, v) in e {
        match g.get(p) {
            None => return if p.is_empty() { "default-missing" } else if p == "xml" { "xml-missing" } else { "binding-missing" },
            Some(x) if x != v => return if p.is_empty() { "default-wrong" } else { "binding-wrong" },
            _ => {}
        }
    }
    for p in g.keys() {
        if !e.contains_key(p) {
            return if p.is_empty() { "default-extra" } else { "binding-extra" };
        }
    }
    "other"
}

fn qname_feature(prefix: &str, ns: &str, is_attr: bool) -> &'static str {
    if prefix.is_empty() && ns.is_empty() && !is_attr {
        "no-namespace-element-under-default"
    } else if prefix.is_empty() && is_attr {
        "attribute-given-empty-prefix"
    } else if prefix.is_empty() {
        "element-default-mismatch"
    } else {
        "prefix-resolves-elsewhere"
    }
}

pub fn total(tier: Tier) -> (u64, u64, u64, u64) {
    let s = SPEC_TOTAL;
    let r = tier.pick(small_specs(), reduced_specs()).len() as u64;
    let g1 = s;
    let g2 = s * s;
    let g3 = match tier {
        Tier::Quick => r * r * r,
        Tier::Thorough => s * r * r,
    };
    (g1, g2, g3, g1 * 2 + g2 * 2 + g3 * 2)
}

pub fn nth_case(tier: Tier, mut i: u64) -> Case {
    let (g1, g2, g3, _) = total(tier);
    let s = SPEC_TOTAL;
    let red = tier.pick(small_specs(), reduced_specs());
    let r = red.len() as u64;
    if i < g1 * 2 {
        let attached = i % 2 == 0;
        return Case { tree: layout_tree(0, &[spec_from(i / 2)]), attached };
    }
    i -= g1 * 2;
    if i < g2 * 2 {
        let attached = i % 2 == 0;
        let j = i / 2;
        return Case { tree: layout_tree(1, &[spec_from(j / s), spec_from(j % s)]), attached };
    }
    i -= g2 * 2;
    let shape = if i < g3 { 2 } else { 3 };
    let j = i % g3;
    let specs = match tier {
        Tier::Quick => [red[(j / (r * r)) as usize], red[((j / r) % r) as usize], red[(j % r) as usize]],
        Tier::Thorough => [spec_from(j / (r * r)), red[((j / r) % r) as usize], red[(j % r) as usize]],
    };
    Case { tree: layout_tree(shape, &specs), attached: true }
}

pub fn run(tier: Tier) -> i32 {
    let ctx = Ctx::new("C09", tier, "exploration");
    let (_, _, _, tot) = total(tier);
    // five-element shape root > r > [a > x, b] over a 12-spec menu (thorough: 24), and unattached single nodes
    let tiny = if tier == Tier::Quick { tiny_specs() } else { small_specs().into_iter().filter(|s| s.dflt != 2 && s.dflt != 3 && s.name != 2).collect::<Vec<_>>() };
    let tn = tiny.len() as u64;
    let five = tn.pow(5);
    let mut singles: Vec<A> = vec![];
    for ns in ["", X, XML_NS] {
        for name in ["k", "id", "space"] {
            singles.push(A::attr_node(ns, name, "v"));
        }
    }
    for (p, u) in [("", X), ("p", X), ("xml", XML_NS), ("", "")] {
        singles.push(A::ns_node(p, u));
    }
    singles.extend([A::text("t"), A::comment("c"), A::pi("pi", None), A::doc(vec![]), A::doc(vec![A::comment("c")])]);
    // declarations with an empty value on a prefix (the parser accepts xmlns:p="", the API set_namespace(p, no
    // namespace)): chains a > b > c, every element with one of 8 declaration sets
    let undecl_menu: Vec<Vec<(&str, &str)>> = vec![
        vec![],
        vec![("p", X)],
        vec![("p", "")],
        vec![("xml", "")],
        vec![("xml", XML_NS)],
        vec![("p", ""), ("", X)],
        vec![("p", Y)],
        vec![("xml", ""), ("p", X)],
    ];
    let un = undecl_menu.len() as u64;
    let undecl_total = un * un * un * 2 * 2;
    let with = |name: &str, set: &Vec<(&str, &str)>| {
        let mut e = A::el("", name);
        for (p, u) in set {
            e = e.decl(p, u);
        }
        e
    };
    let undecl = par_range(&ctx, undecl_total, |i, st| {
        let d = mixed(&[un as usize, un as usize, un as usize, 2, 2], i);
        // the innermost element with and without an attribute in the XML namespace (xml must stay usable below
        // xmlns:xml="")
        let c = if d[4] == 1 { with("c", &undecl_menu[d[2]]).attr(XML_NS, "space", "default") } else { with("c", &undecl_menu[d[2]]) };
        let b = with("b", &undecl_menu[d[1]]).child(c);
        let a = with("a", &undecl_menu[d[0]]).child(b);
        let case = Case { tree: a, attached: d[3] == 0 };
        let fails = eval_case(&case, st);
        st.bump("prefix_undeclaration_layouts");
        st.outcome(&case.tree.canon());
        for f in fails {
            st.fail(&case, f);
        }
    });
    let extra = par_range(&ctx, five + singles.len() as u64, |i, st| {
        let case = if i < five {
            let d = mixed(&[tn as usize; 5], i);
            let specs: Vec<ElemSpec> = d.iter().map(|k| tiny[*k]).collect();
            Case { tree: layout_tree(4, &specs), attached: true }
        } else {
            Case { tree: singles[(i - five) as usize].clone(), attached: false }
        };
        let fails = eval_case(&case, st);
        st.bump(if i < five { "five_element_layouts" } else { "unattached_single_nodes" });
        st.outcome(&case.tree.canon());
        for f in fails {
            st.fail(&case, f);
        }
    });
    let stats = par_range(&ctx, tot, |i, st| {
        let case = nth_case(tier, i);
        let fails = eval_case(&case, st);
        st.bump("layouts");
        if tot <= 8_000_000 || i % 97 == 0 {
            st.outcome(&case.tree.canon());
        }
        if i % 500_003 == 1 {
            st.sample(|| json!({"layout": case.tree.show(), "attached": case.attached}));
        }
        for f in fails {
            st.fail(&case, f);
        }
    });
    let stats = stats.merge(extra).merge(undecl);
    if let Err(e) = require_nonzero(&stats, &["layouts", "five_element_layouts", "prefix_undeclaration_layouts", "unattached_single_nodes", "full_name_ok", "unresolved_nonempty", "inherited_nonempty"]) {
        eprintln!("MACHINERY: {}", e);
        return 2;
    }
    let cov = json!({
        "rule": "namespace layouts: 1 element (540 specs: default in {-,X,Y,\"\"} x p in {-,X,Y} x q in {-,X,Y} x element namespace in {none,X,Y} x attribute in {absent, k, {X}k, {Y}k, xml:space}), chains of 2 (540^2), chains of 3 and forks of 3 (quick: reduced 72-spec menu cubed; thorough: 540 x 144 x 144); the five-element shape root > r > [a > x, b] over a 12-spec menu (thorough: 24); chains of 3 over 8 declaration sets with empty values on prefixes (p=\"\", xml=\"\", next to p=X, p=Y, xml=XML, default X), attached and unattached; unattached attribute, namespace, text, comment, PI and document nodes (names k / id / space in no namespace, X and the XML namespace); attached under a document and (1-2 elements) unattached; every node incl. attribute / namespace / document nodes x prefixes {\"\",p,q,xml,r} x namespaces {X,Y,XML,Z}; distinct = distinct canonical layouts (counted over all indices when the space has <= 8M layouts, else over every 97th index: a measured lower bound)",
        "total_layouts": tot,
    });
    ctx.finish(stats, cov, vec!["hash iteration order observed, not controlled: results compared as sets / maps".into()])
}
