//! C16 Token and output-event streams reproduce the string serialisation.
use crate::atree::*;
use crate::common::*;
use crate::gen::*;
use crate::nsscope::*;
use serde::{Deserialize, Serialize};
use serde_json::json;
use xot::output::xml::Parameters;
use xot::output::{Indentation, NoopNormalizer, Output, TokenSerializeParameters};
use xot::Xot;

#[derive(Serialize, Deserialize, Clone)]
pub struct Case {
    pub tree: A,
    /// walk_all index of the serialised node
    pub top: usize,
    pub cdata: u32,
    pub unescaped_gt: bool,
    pub suppress: u32,
    /// give both lists in reverse order (only matters when a list has two names)
    #[serde(default)]
    pub reversed: bool,
}

fn names(xot: &mut Xot, mask: u32, reversed: bool) -> Vec<xot::NameId> {
    let a = xot.add_name("a");
    let b = xot.add_name("b");
    let mut v = vec![];
    if mask & 1 != 0 {
        v.push(a);
    }
    if mask & 2 != 0 {
        v.push(b);
    }
    if reversed {
        v.reverse();
    }
    v
}

fn ev_string(xot: &Xot, o: &Output) -> String {
    let qn = |n: xot::NameId| {
        let (l, ns) = xot.name_ns_str(n);
        format!("{{{}}}{}", ns, l)
    };
    match o {
        Output::StartTagOpen(e) => format!("open:{}", qn(e.name())),
        Output::StartTagClose => "close".into(),
        Output::EndTag(e) => format!("end:{}", qn(e.name())),
        Output::Prefix(p, n) => format!("prefix:{}={}", xot.prefix_str(*p), xot.namespace_str(*n)),
        Output::Attribute(n, v) => format!("attr:{}={}", qn(*n), v),
        Output::Text(t) => format!("text:{}", t),
        Output::Comment(t) => format!("comment:{}", t),
        Output::ProcessingInstruction(t, d) => format!("pi:{} {:?}", qn(*t), d),
    }
}

/// expected events for the subtree at walk index `i`; returns next walk index.
/// Prefix events of the top element that are inherited (not own declarations) are returned separately as a set.
fn expected_events(a: &A, idx: &mut usize, is_top: bool, outer: &Scope, out: &mut Vec<(usize, String)>, inherited: &mut Vec<String>) {
    let me = *idx;
    *idx += 1;
    match a.k {
        K::Doc => {
            for c in &a.ch {
                expected_events(c, idx, false, outer, out, inherited);
            }
        }
        K::Elem => {
            out.push((me, format!("open:{{{}}}{}", a.ns, a.name)));
            if is_top {
                for (p, u) in outer {
                    if !a.nss.iter().any(|d| d.name == *p) {
                        inherited.push(format!("prefix:{}={}", p, u));
                    }
                }
                out.push((me, "<inherited>".into()));
            }
            for d in &a.nss {
                out.push((me, format!("prefix:{}={}", d.name, d.ns)));
                *idx += 1;
            }
            for at in &a.attrs {
                out.push((me, format!("attr:{{{}}}{}={}", at.ns, at.name, at.val.as_deref().unwrap_or(""))));
                *idx += 1;
            }
            out.push((me, "close".into()));
            let s = enter(outer, a);
            for c in &a.ch {
                expected_events(c, idx, false, &s, out, inherited);
            }
            out.push((me, format!("end:{{{}}}{}", a.ns, a.name)));
        }
        K::Text => out.push((me, format!("text:{}", a.val.as_deref().unwrap_or("")))),
        K::Comment => out.push((me, format!("comment:{}", a.val.as_deref().unwrap_or("")))),
        K::Pi => out.push((me, format!("pi:{{}}{} {:?}", a.name, a.val.as_deref()))),
        _ => {}
    }
}

/// find the subtree at walk index `target`, with the scope outside it
fn locate<'a>(a: &'a A, idx: &mut usize, target: usize, outer: &Scope) -> Option<(&'a A, Scope)> {
    let me = *idx;
    if me == target {
        return Some((a, outer.clone()));
    }
    *idx += 1 + a.nss.len() + a.attrs.len();
    let s = if a.k == K::Elem { enter(outer, a) } else { outer.clone() };
    for c in &a.ch {
        if let Some(r) = locate(c, idx, target, &s) {
            return Some(r);
        }
    }
    None
}

pub fn eval(case: &Case) -> Vec<Fail> {
    let mut st = Stats::default();
    eval_case(case, &mut st)
}

pub fn eval_case(case: &Case, st: &mut Stats) -> Vec<Fail> {
    let mut fails = vec![];
    let mut xot = Xot::new();
    let mut handles = vec![];
    build(&mut xot, &case.tree, &mut handles);
    let top = handles[case.top];
    let cd = names(&mut xot, case.cdata, case.reversed);
    let sup = names(&mut xot, case.suppress, case.reversed);
    let tab: std::collections::HashMap<xot::Node, usize> = handles.iter().enumerate().map(|(i, n)| (*n, i)).collect();
    let xot = &xot;
    let desc = || format!("{} top=#{} cdata={} gt={} suppress={} reversed={}", case.tree.show(), case.top, case.cdata, case.unescaped_gt, case.suppress, case.reversed);
    let plain = Parameters { cdata_section_elements: cd.clone(), unescaped_gt: case.unescaped_gt, ..Default::default() };
    let pretty = Parameters { cdata_section_elements: cd.clone(), unescaped_gt: case.unescaped_gt, indentation: Some(Indentation { suppress: sup.clone() }), ..Default::default() };
    let tparams = || TokenSerializeParameters { cdata_section_elements: cd.clone(), unescaped_gt: case.unescaped_gt };

    let s_plain = match catch(|| xot.serialize_xml_string(plain.clone(), top)) {
        Ok(Ok(s)) => s,
        Ok(Err(_)) => {
            st.bump("not_serialisable");
            return fails;
        }
        Err(p) => {
            fails.push(Fail::new(format!("panic|serialize_xml_string|{}", panic_class(&p)), desc()));
            return fails;
        }
    };
    st.evals += 1;
    // 1. tokens
    match catch(|| {
        let mut s = String::new();
        for (_n, _o, t) in xot.tokens(top, tparams(), NoopNormalizer) {
            if t.space {
                s.push(' ');
            }
            s.push_str(&t.text);
        }
        s
    }) {
        Ok(s) => {
            st.evals += 1;
            if s != s_plain {
                fails.push(Fail::new(format!("tokens-differ|{}", str_diff_class(&s_plain, &s)), format!("{}: string {:?} tokens {:?}", desc(), s_plain, s)));
            }
        }
        Err(p) => fails.push(Fail::new(format!("panic|tokens|{}", panic_class(&p)), desc())),
    }
    // 2. pretty tokens
    let s_pretty = catch(|| xot.serialize_xml_string(pretty.clone(), top));
    match (&s_pretty, catch(|| {
        let mut s = String::new();
        for (_n, _o, t) in xot.pretty_tokens(top, tparams(), &sup, NoopNormalizer) {
            s.push_str(&" ".repeat(t.indentation * 2));
            if t.space {
                s.push(' ');
            }
            s.push_str(&t.text);
            if t.newline {
                s.push('\n');
            }
        }
        s
    })) {
        (Ok(Ok(sp)), Ok(s)) => {
            st.evals += 1;
            if &s != sp {
                fails.push(Fail::new(format!("pretty-tokens-differ|{}", str_diff_class(sp, &s)), format!("{}: string {:?} tokens {:?}", desc(), sp, s)));
            }
            if sp != &s_plain {
                st.bump("pretty_differs_from_plain");
            }
        }
        (_, Err(p)) => fails.push(Fail::new(format!("panic|pretty_tokens|{}", panic_class(&p)), desc())),
        (Err(p), _) => fails.push(Fail::new(format!("panic|serialize_pretty|{}", panic_class(p)), desc())),
        (Ok(Err(e)), _) => fails.push(Fail::new("pretty-err-but-plain-ok", format!("{}: {:?}", desc(), e))),
    }
    // 3. Write-based entry points
    for (name, r) in [
        ("serialize_xml_write", catch(|| {
            let mut b = vec![];
            xot.serialize_xml_write(plain.clone(), top, &mut b).map(|_| b)
        })),
        ("serialize_xml_write(pretty)", catch(|| {
            let mut b = vec![];
            xot.serialize_xml_write(pretty.clone(), top, &mut b).map(|_| b)
        })),
    ] {
        st.evals += 1;
        let exp = if name.contains("pretty") { s_pretty.clone().ok().and_then(|r| r.ok()) } else { Some(s_plain.clone()) };
        match r {
            Ok(Ok(b)) => {
                if Some(String::from_utf8_lossy(&b).to_string()) != exp {
                    fails.push(Fail::new(format!("write-differs|{}", name), desc()));
                }
            }
            other => fails.push(Fail::new(format!("write-fails|{}", name), format!("{}: {:?}", desc(), other.map(|r| r.map(|_| ())))),),
        }
    }
    // 3b. the same entry points against a scripted sink: short writes (3 bytes per call) give the same bytes; when the
    //     n-th write call reports an error (every n) and the call returns, what was accepted is a prefix of the string
    {
        let mut sw = ScriptedWriter::new(3, None);
        st.evals += 1;
        match catch(|| xot.serialize_xml_write(pretty.clone(), top, &mut sw)) {
            Ok(Ok(())) if s_pretty.as_ref().ok().and_then(|r| r.as_ref().ok()).map(|s| s.as_bytes() == &sw.data[..]).unwrap_or(false) => {}
            other => fails.push(Fail::new("write-differs|short-writes", format!("{}: {:?}", desc(), other.map(|r| r.map_err(|e| format!("{:?}", e)))))),
        }
        if case.suppress == 0 && (case.cdata == 0 || case.cdata == 3) {
            let mut count = ScriptedWriter::new(usize::MAX, None);
            let _ = catch(|| xot.serialize_xml_write(plain.clone(), top, &mut count));
            for n in 0..count.calls {
                let mut fw = ScriptedWriter::new(usize::MAX, Some(n));
                st.evals += 1;
                st.bump("io_errors_injected");
                match catch(|| xot.serialize_xml_write(plain.clone(), top, &mut fw)) {
                    Ok(Ok(())) => {
                        fails.push(Fail::new("write-differs|io-error-swallowed", format!("{}: writer fails at call {} but the call answers Ok", desc(), n)));
                        break;
                    }
                    Ok(Err(_)) => {
                        if !s_plain.as_bytes().starts_with(&fw.data) {
                            fails.push(Fail::new("write-differs|not-a-prefix-after-io-error", format!("{}: call {}", desc(), n)));
                            break;
                        }
                    }
                    // a panic on an I/O error is not a statement of this property (C19 owns "never panics" for HTML5)
                    Err(_) => st.bump("io_error_panics"),
                }
            }
        }
    }
    if case.cdata == 0 && !case.unescaped_gt {
        st.evals += 1;
        let w = catch(|| {
            let mut b = vec![];
            xot.write(top, &mut b).map(|_| b)
        });
        let t = catch(|| xot.to_string(top));
        match (w, t) {
            (Ok(Ok(b)), Ok(Ok(s))) => {
                if b != s.as_bytes() || s != s_plain {
                    fails.push(Fail::new("write-differs|write/to_string", desc()));
                }
            }
            _ => fails.push(Fail::new("write-fails|write/to_string", desc())),
        }
    }
    // 4. output events
    let mut i0 = 0usize;
    let (sub, outer) = locate(&case.tree, &mut i0, case.top, &base_scope()).expect("top index");
    let mut exp = vec![];
    let mut inh = vec![];
    let mut idx = case.top;
    expected_events(sub, &mut idx, true, &outer, &mut exp, &mut inh);
    match catch(|| xot.outputs(top).map(|(n, o)| (tab.get(&n).copied().unwrap_or(usize::MAX), ev_string(xot, &o))).collect::<Vec<_>>()) {
        Err(p) => fails.push(Fail::new(format!("panic|outputs|{}", panic_class(&p)), desc())),
        Ok(got) => {
            st.evals += 1;
            // align: the <inherited> marker absorbs any permutation of the inherited bindings
            let mut gi = 0usize;
            let mut skip_own = 0usize;
            let mut ok = true;
            let mut why = String::new();
            for (n, e) in &exp {
                if e == "<inherited>" {
                    // the namespace block of the top element: its own declarations in map order, and the
                    // bindings it inherits (prefixes it does not declare itself) anywhere among them, in any order
                    let own: Vec<String> = sub.nss.iter().map(|d| format!("prefix:{}={}", d.name, d.ns)).collect();
                    let own_prefix = |ev: &str| sub.nss.iter().any(|d| ev.starts_with(&format!("prefix:{}=", d.name)));
                    let mut block = vec![];
                    while gi < got.len() && got[gi].1.starts_with("prefix:") {
                        block.push(got[gi].clone());
                        gi += 1;
                    }
                    let got_own: Vec<String> = block.iter().filter(|x| own_prefix(&x.1)).map(|x| x.1.clone()).collect();
                    let mut a: Vec<String> = block.iter().filter(|x| !own_prefix(&x.1)).map(|x| x.1.clone()).collect();
                    let mut b = inh.clone();
                    a.sort();
                    b.sort();
                    if a != b || got_own != own || block.iter().any(|x| x.0 != *n) {
                        ok = false;
                        why = format!("inherited prefix events: expected own {:?} + inherited {:?} got {:?}", own, b, block);
                        break;
                    }
                    skip_own = own.len();
                    continue;
                }
                if skip_own > 0 {
                    skip_own -= 1;
                    continue;
                }
                match got.get(gi) {
                    Some((gn, ge)) if gn == n && ge == e => gi += 1,
                    other => {
                        ok = false;
                        why = format!("event {}: expected {:?} got {:?}", gi, (n, e), other);
                        break;
                    }
                }
            }
            if ok && gi != got.len() {
                ok = false;
                why = format!("extra events {:?}", &got[gi..]);
            }
            if !ok {
                let cls = why.split(':').next().unwrap_or("").split(' ').next().unwrap_or("").to_string();
                fails.push(Fail::new(format!("outputs|{}", cls), format!("{}: {}", desc(), why)));
            }
            if !inh.is_empty() && inh.len() > 1 {
                st.bump("subtree_with_inherited_prefixes");
            }
        }
    }
    fails
}

fn tree_cases(tier: Tier) -> Vec<A> {
    let al = TreeAlphabet {
        elements: vec![A::el("", "a"), A::el("", "b").attr("", "k", "v"), A::el(X, "a").decl("p", X).attr(X, "l", "<"), A::el(Y, "b").decl("", Y)],
        leaves: vec![A::text("t"), A::text("]]>&<"), A::text(""), A::comment("c"), A::pi("pi", Some("d"))],
        adjacent_text: false,
    };
    let n = tier.pick(4, 5);
    let mut out = vec![];
    for k in 1..=n {
        for f in forests(&al, k) {
            let doc = A::doc(f);
            if serialisable(&doc, &base_scope()) {
                out.push(doc);
            }
        }
    }
    // namespace layouts: chains of 2 and 3 (reduced menu), inherited declarations matter for in-place subtrees
    let red = small_specs();
    for a in &red {
        for b in &red {
            let t = A::doc(vec![layout_tree(1, &[*a, *b])]);
            if serialisable(&t, &base_scope()) {
                out.push(t);
            }
        }
    }
    // deep chains: indentation levels beyond any small constant
    for depth in [17usize, 33, 40] {
        let mut e = A::el("", "a").attr("", "k", "v").child(A::el("", "b"));
        for i in 0..depth {
            e = A::el("", if i % 2 == 0 { "b" } else { "a" }).child(e).child(A::comment("c"));
        }
        out.push(A::doc(vec![e]));
    }
    if tier == Tier::Thorough {
        let red = reduced_specs();
        for (i, a) in red.iter().enumerate() {
            for b in &red {
                for c in red.iter().skip(i % 3).step_by(3) {
                    let t = A::doc(vec![layout_tree(2, &[*a, *b, *c])]);
                    if serialisable(&t, &base_scope()) {
                        out.push(t);
                    }
                }
            }
        }
    }
    out
}

pub fn run(tier: Tier) -> i32 {
    let ctx = Ctx::new("C16", tier, "exploration");
    let trees = tree_cases(tier);
    let stats = par_slice(&ctx, &trees, |t, st| {
        // every ordinary node as serialisation root
        let mut tops = vec![];
        let mut idx = 0usize;
        t.walk_all(&mut |n: &A| {
            if n.k.normal() {
                tops.push(idx);
            }
            idx += 1;
        });
        st.bump("trees");
        for top in tops {
            for cfg in 0..32u32 {
                let reversed = cfg & 16 != 0;
                let suppress = if cfg & 8 != 0 { (cfg & 3) ^ 3 } else { 0 };
                if reversed && cfg & 3 != 3 && suppress != 3 {
                    continue; // no list with two names: the order cannot matter
                }
                let case = Case { tree: t.clone(), top, cdata: cfg & 3, unescaped_gt: cfg & 4 != 0, suppress, reversed };
                let fails = eval_case(&case, st);
                st.bump("cases");
                st.outcome(&(t.canon(), top, cfg));
                for f in fails {
                    st.fail(&case, f);
                }
            }
        }
        if st.counters["trees"] % 2003 == 1 {
            st.sample(|| json!({"tree": t.show()}));
        }
    });
    if let Err(e) = require_nonzero(&stats, &["cases", "pretty_differs_from_plain", "subtree_with_inherited_prefixes"]) {
        eprintln!("MACHINERY: {}", e);
        return 2;
    }
    let cov = json!({
        "rule": format!("every serialisable document / fragment with <= {} ordinary nodes over 4 element prototypes (attributes, prefixed and default declarations), text (plain and ']]>&<'), comment, PI, plus 2-element (thorough: 3-element) namespace layouts; every ordinary node as serialisation root (in-place subtrees inherit declarations) x CDATA-section subsets of {{a,b}} x unescaped_gt x suppress subsets (two-name lists in both orders); distinct = distinct (tree, root, parameters)", tier.pick(4, 5)),
    });
    ctx.finish(stats, cov, vec![])
}
