//! C02 Parsing yields exactly the document the text denotes (and C17: spans point at the right text).
//! E-SPELL: every abstract document x the k-deviation ball of lexical spellings x entry points.
use crate::atree::*;
use crate::common::*;
use crate::nsscope::{X, Y};
use crate::props::c01::{err_class, norm};
use crate::spell::*;
use serde::{Deserialize, Serialize};
use serde_json::json;
use xot::{Node, SpanInfo, SpanInfoKey, Xot};

#[derive(Serialize, Deserialize, Clone)]
pub struct Case {
    pub doc: A,
    pub deviations: Vec<(usize, usize)>,
}

/// the abstract documents
pub fn documents(tier: Tier) -> Vec<A> {
    let mut out = vec![];
    let vals: Vec<&str> = vec!["a", " ", "\t", "\n", "\r", "<", "&", "\"", "'", "]", ">", "\u{e9}", "\u{10000}"];
    // 1. one element, one attribute value and one text of one or two characters from the sharp alphabet
    for v in &vals {
        out.push(A::doc(vec![A::el("", "a").attr("", "k", v).child(A::text(v))]));
    }
    let pairs: Vec<(&str, &str)> = vec![("\r", "\n"), ("]", "]"), ("]", ">"), ("a", "\n"), ("\n", "a"), (" ", " "), ("&", "<"), ("\"", "'"), ("\u{e9}", "\u{10000}"), ("\t", " ")];
    for (x, y) in &pairs {
        let s = format!("{}{}", x, y);
        out.push(A::doc(vec![A::el("", "a").attr("", "k", &s).child(A::text(&s))]));
    }
    out.push(A::doc(vec![A::el("", "a").child(A::text("]]>x"))]));
    out.push(A::doc(vec![A::el("", "a").child(A::text("x\r\ny\n\rz"))]));
    // 2. structure: children, comments, PIs, top-level items
    out.push(A::doc(vec![A::comment("c"), A::el("", "a").child(A::el("", "b")).child(A::text("t")).child(A::el("", "c").child(A::text("u"))), A::pi("pi", Some("d"))]));
    out.push(A::doc(vec![A::el("", "a").child(A::comment(" c - d ")).child(A::pi("pi", None)).child(A::pi("po", Some("x y")))]));
    out.push(A::doc(vec![A::el("", "a").child(A::text("t")).child(A::comment("c")).child(A::text("u"))]));
    // 2b. every child sequence of length <= 3 over {text, comment, PI, PI with data, element} (no adjacent text):
    //     every kind of neighbour between two text runs
    {
        let kinds = [A::text("t"), A::comment("c"), A::pi("pi", None), A::pi("po", Some("d")), A::el("", "b")];
        for i in 0..crate::gen::strings_count(5, 3) {
            let seq = crate::gen::nth_string(&kinds, 3, i);
            if seq.is_empty() || seq.windows(2).any(|w| w[0].k == K::Text && w[1].k == K::Text) {
                continue;
            }
            // make the text runs distinguishable
            let mut n = 0;
            let seq: Vec<A> = seq
                .into_iter()
                .map(|mut x| {
                    if x.k == K::Text {
                        n += 1;
                        x.val = Some(["one", "two", "tri"][n - 1].to_string());
                    }
                    x
                })
                .collect();
            out.push(A::doc(vec![A::el("", "a").kids(seq)]));
        }
    }
    // 3. namespaces: prefixes, default, shadowing, undeclaration, two prefixes for one namespace, URI with '&'
    out.push(A::doc(vec![A::el(X, "a").decl("p", X).attr(X, "k", "1").attr("", "k", "2")]));
    out.push(A::doc(vec![A::el(X, "a").decl("", X).decl("p", X).attr(X, "k", "1").child(A::el(X, "b"))]));
    out.push(A::doc(vec![A::el(X, "a").decl("", X).child(A::el("", "b").decl("", "").attr("", "k", "v").child(A::el("", "c")))]));
    out.push(A::doc(vec![A::el(X, "a").decl("p", X).child(A::el(Y, "b").decl("p", Y).attr(Y, "k", "1").child(A::el(Y, "c")))]));
    out.push(A::doc(vec![A::el("u&v", "a").decl("p", "u&v").attr("u&v", "k", "1")]));
    out.push(A::doc(vec![A::el(X, "a").decl("p", X).decl("q", X).attr(X, "k", "1").child(A::el(X, "b").attr("", "l", "x"))]));
    // synonymous prefixes inherited by a child that uses one of them for an attribute
    out.push(A::doc(vec![A::el("", "a").decl("p", X).decl("q", X).child(A::el(X, "b").attr(X, "k", "1").child(A::el("", "c").attr(X, "m", "2")))]));
    // 3b. the same local name as element and as unprefixed attribute under a default namespace; a prefix
    //     rebound on one child and used again (with the outer meaning) by the next sibling; PIs under a default
    //     namespace; characters whose ISO-8859-1 bytes happen to be well-formed UTF-8
    out.push(A::doc(vec![A::el(X, "a").decl("", X).attr("", "b", "1").child(A::el(X, "b").attr("", "b", "2").attr("", "a", "3")).child(A::el(X, "a"))]));
    out.push(A::doc(vec![A::el("", "r").decl("p", X).child(A::el("", "m").decl("p", Y).attr(Y, "x", "1")).child(A::el("", "n").attr(X, "x", "2")).child(A::el(X, "m"))]));
    out.push(A::doc(vec![A::el("", "r").child(A::el(X, "a").decl("p", X).child(A::el(X, "x"))).child(A::el("", "y").child(A::el(Y, "a").decl("p", Y)))]));
    out.push(A::doc(vec![A::el(X, "a").decl("", X).child(A::pi("pi", Some("d"))).child(A::el(X, "pi")).child(A::pi("a", None))]));
    out.push(A::doc(vec![A::el("", "a").attr("", "k", "\u{c3}\u{a9}").child(A::text("\u{c3}\u{a9}\u{c2}\u{a0}x"))]));
    out.push(A::doc(vec![A::el("", "a").attr(XML_NS, "id", "i").child(A::el("", "b").attr(XML_NS, "id", "j")).child(A::el("", "c").attr(XML_NS, "id", "k l"))]));
    // 3c. names beyond ASCII (spans must stay on character boundaries), comment / PI bodies with markup characters,
    //     text with U+0085 / U+2028 (not line ends in XML 1.0)
    out.push(A::doc(vec![A::el(X, "\u{3b1}\u{3b2}").decl("\u{e9}", X).attr(X, "\u{4e2d}", "\u{3b1}").attr("", "a-b.c", "1").child(A::pi("\u{e9}_1", Some("\u{3b1} ?> x".replace("?>", "? >").as_str()))).child(A::el("", "\u{10000}x").child(A::text("\u{85}\u{2028}")))]));
    out.push(A::doc(vec![A::comment("<a>&amp;]]>"), A::el("", "a").child(A::comment("- -\n<")).child(A::pi("pi", Some("<?x? >&\n"))).child(A::text("x")), A::pi("pi", Some("]]>"))]));
    // 3d. characters that windows-1252 keeps in 0x80..=0x9F (euro sign, curly quotes, dashes, trade mark)
    out.push(A::doc(vec![A::el("", "a").attr("", "k", "\u{20ac}\u{201c}\u{2122}").child(A::text("\u{2013}\u{e9}\u{20ac}x\u{178}"))]));
    // 3e. namespace URIs with white space (attribute-value normalisation applies to declarations too)
    out.push(A::doc(vec![A::el("u v", "a").decl("p", "u v").decl("", "x  y").attr("u v", "k", "1").child(A::el("x  y", "b"))]));
    // 3f. local names that only look special: a prefixed attribute called "xmlns" is an ordinary attribute, an element
    //     called xmlns / xml is an ordinary element, attributes called id / space outside the XML namespace are plain
    out.push(A::doc(vec![A::el("", "a").decl("p", X).attr(X, "xmlns", "urn:q").child(A::el("", "xmlns").attr(X, "id", " i ").attr("", "space", "preserve").child(A::el(X, "xml")))]));
    // 3g. content that merely looks like an encoding declaration (the encoding of a byte input is given by a byte order
    //     mark or by the XML declaration, by nothing else)
    out.push(A::doc(vec![A::el("", "doc").attr("", "encoding", "iso-8859-1").child(A::text("\u{e9}"))]));
    out.push(A::doc(vec![A::comment(" encoding=\"iso-8859-1\" "), A::el("", "meta").attr("", "charset", "windows-1252").child(A::text("\u{20ac}\u{e9}"))]));
    // 4. xml:id and xml:space
    out.push(A::doc(vec![A::el("", "a").attr(XML_NS, "id", "i").child(A::el("", "b").attr(XML_NS, "id", "j k").attr(XML_NS, "space", "preserve"))]));
    out.push(A::doc(vec![A::el("", "a").attr("", "id", " x  y ").attr(XML_NS, "id", "a b")]));
    if tier == Tier::Thorough {
        for (i, v) in vals.iter().enumerate() {
            for w in vals.iter().skip(i % 3).step_by(3) {
                let s = format!("{}x{}", v, w);
                out.push(A::doc(vec![A::el("", "a").attr("", "k", &s).child(A::text(&s)).child(A::el("", "b")).child(A::text(w))]));
            }
        }
    }
    out
}

pub struct Parsed {
    pub xot: Xot,
    pub node: Node,
    pub span_info: Option<SpanInfo>,
}

/// run the entry point the rendering selected; Err(class) on refusal / panic
pub fn run_entry(r: &Rendered) -> Result<Parsed, (String, String)> {
    let mut xot = Xot::new();
    let res = catch(|| -> Result<(Node, Option<SpanInfo>), String> {
        match r.entry {
            Entry::Parse => xot.parse(&r.text).map(|n| (n, None)).map_err(|e| format!("{:?}", e)),
            Entry::ParseWithSpanInfo => xot.parse_with_span_info(&r.text).map(|(n, s)| (n, Some(s))).map_err(|e| format!("{:?}", e)),
            Entry::ParseFragment => xot.parse_fragment_with_span_info(&r.text).map(|(n, s)| (n, Some(s))).map_err(|e| format!("{:?}", e)),
            e => {
                let bytes = encode(&r.text, e).ok_or("not-encodable")?;
                xot.parse_bytes(&bytes).map(|n| (n, None)).map_err(|e| format!("{:?}", e))
            }
        }
    });
    match res {
        Err(p) => Err(("panic".into(), p)),
        Ok(Err(e)) => Err(("rejected".into(), e)),
        Ok(Ok((node, span_info))) => Ok(Parsed { xot, node, span_info }),
    }
}

pub fn dev_label(r: &Rendered, dev: &[(usize, usize)]) -> String {
    if dev.is_empty() {
        return "default-spelling".into();
    }
    dev.iter().map(|(i, a)| format!("{}#{}", r.labels.get(*i).copied().unwrap_or("?"), a)).collect::<Vec<_>>().join("+")
}

pub fn eval(case: &Case) -> Vec<Fail> {
    let mut st = Stats::default();
    eval_case(case, &mut st, true, true)
}

/// `tree`: check the C02 clauses; `spans`: check the C17 clauses
pub fn eval_case(case: &Case, st: &mut Stats, tree: bool, spans: bool) -> Vec<Fail> {
    let mut fails = vec![];
    let r = render(&case.doc, &case.deviations);
    if r.entry == Entry::ParseFragment && r.has_prolog {
        return fails; // a fragment has no XML declaration
    }
    if r.entry == Entry::BytesLatin1 && !latin1_safe(&r.text) {
        return fails;
    }
    let label = dev_label(&r, &case.deviations);
    st.evals += 1;
    let parsed = match run_entry(&r) {
        Err((kind, e)) => {
            if e == "not-encodable" {
                return fails;
            }
            if tree {
                fails.push(Fail::new(format!("{}|{}|{}", kind, err_class(&e), label), format!("{:?} ({:?}) for {}: {}", r.text, r.entry, case.doc.show(), e)));
            }
            return fails;
        }
        Ok(p) => p,
    };
    st.bump("parsed");
    let xot = &parsed.xot;
    let mut got = read(xot, parsed.node);
    if r.entry == Entry::ParseFragment {
        got.ch.retain(|c| !(c.k == K::Text && c.val.as_deref().unwrap_or("").chars().all(|ch| matches!(ch, ' ' | '\n' | '\r' | '\t'))));
    }
    if tree {
        if let Some(d) = diff_class(&norm(&case.doc), &norm(&got)) {
            fails.push(Fail::new(format!("tree-differs|{}|{}", d, label), format!("{:?} ({:?}) should denote {} but parsed as {}", r.text, r.entry, case.doc.show(), got.show())));
            return fails;
        }
        // declarations are recorded on the element that wrote them, in written order (any interleaving keeps list order)
        if case.doc.sorted_attrs().canon() != got.sorted_attrs().canon() {
            fails.push(Fail::new(format!("declaration-order|{}", label), format!("{:?}: {} vs {}", r.text, case.doc.show(), got.show())));
        }
        // xml:id index
        let mut ids: Vec<(Vec<usize>, String)> = vec![];
        fn collect(a: &A, path: &mut Vec<usize>, out: &mut Vec<(Vec<usize>, String)>) {
            for at in &a.attrs {
                if at.ns == XML_NS && at.name == "id" {
                    out.push((path.clone(), at.val.clone().unwrap_or_default()));
                }
            }
            for (i, c) in a.ch.iter().enumerate() {
                path.push(i);
                collect(c, path, out);
                path.pop();
            }
        }
        collect(&case.doc, &mut vec![], &mut ids);
        for (path, id) in ids {
            let expected_node = node_at(xot, parsed.node, &path, r.entry == Entry::ParseFragment);
            let found = xot.xml_id_node(parsed.node, &id);
            if found.is_none() || found != expected_node {
                fails.push(Fail::new(format!("xml_id_node|{}", label), format!("{:?}: xml_id_node({:?}) = {:?}, expected the element at {:?}", r.text, id, found, path)));
            }
            st.bump("xml_ids_checked");
        }
    }
    if spans {
        if let Some(si) = &parsed.span_info {
            check_spans(&r, &case.doc, &parsed, si, &label, &mut fails, st);
        }
    }
    fails
}

/// follow child indices of the abstract document in the parsed tree (fragment results may carry extra
/// whitespace-only text nodes at the top level)
fn node_at(xot: &Xot, root: Node, path: &[usize], fragment: bool) -> Option<Node> {
    let mut n = root;
    for (depth, i) in path.iter().enumerate() {
        let kids: Vec<Node> = xot
            .children(n)
            .filter(|c| !(fragment && depth == 0 && xot.text_str(*c).map(|t| t.chars().all(|ch| matches!(ch, ' ' | '\n' | '\r' | '\t'))).unwrap_or(false)))
            .collect();
        n = *kids.get(*i)?;
    }
    Some(n)
}

fn check_spans(r: &Rendered, doc: &A, parsed: &Parsed, si: &SpanInfo, label: &str, fails: &mut Vec<Fail>, st: &mut Stats) {
    let xot = &parsed.xot;
    let fragment = r.entry == Entry::ParseFragment;
    for s in &r.spans {
        let Some(node) = node_at(xot, parsed.node, &s.path, fragment) else { continue };
        let (key, name) = match &s.what {
            SpanWhat::ElementStart => (SpanInfoKey::ElementStart(node), "ElementStart"),
            SpanWhat::ElementEnd => (SpanInfoKey::ElementEnd(node), "ElementEnd"),
            SpanWhat::AttributeName(ns, l) => {
                let Some(nsid) = xot.namespace(ns) else { continue };
                let Some(nid) = xot.name_ns(l, nsid) else { continue };
                (SpanInfoKey::AttributeName(node, nid), "AttributeName")
            }
            SpanWhat::AttributeValue(ns, l) => {
                let Some(nsid) = xot.namespace(ns) else { continue };
                let Some(nid) = xot.name_ns(l, nsid) else { continue };
                (SpanInfoKey::AttributeValue(node, nid), "AttributeValue")
            }
            SpanWhat::Text => (SpanInfoKey::Text(node), "Text"),
            SpanWhat::Comment => (SpanInfoKey::Comment(node), "Comment"),
            SpanWhat::PiTarget => (SpanInfoKey::PiTarget(node), "PiTarget"),
            SpanWhat::PiContent => (SpanInfoKey::PiContent(node), "PiContent"),
        };
        st.evals += 1;
        st.bump("spans_checked");
        match si.get(key) {
            None => fails.push(Fail::new(format!("span-missing|{}|{}", name, label), format!("{:?}: no span for {} at {:?}", r.text, name, s.path))),
            Some(sp) => {
                let ok_bounds = sp.start <= sp.end && sp.end <= r.text.len() && r.text.is_char_boundary(sp.start) && r.text.is_char_boundary(sp.end);
                if !ok_bounds {
                    fails.push(Fail::new(format!("span-out-of-bounds|{}|{}", name, label), format!("{:?}: {:?}", r.text, sp)));
                } else if (sp.start, sp.end) != (s.start, s.end) {
                    fails.push(Fail::new(
                        format!("span-wrong|{}|{}", name, label),
                        format!("{:?}: {} span is {:?} = {:?}, expected {}..{} = {:?}", r.text, name, sp, &r.text[sp.start..sp.end], s.start, s.end, &r.text[s.start..s.end]),
                    ));
                }
            }
        }
    }
    let _ = doc;
}

pub fn run_generic(prop: &'static str, tier: Tier, tree: bool, spans: bool) -> i32 {
    let ctx = Ctx::new(prop, tier, "exploration");
    let docs = documents(tier);
    let k = tier.pick(2, 2);
    let mut stats = Stats::default();
    let mut total_cases = 0u64;
    let mut per_level = vec![0u64; 5];
    for doc in &docs {
        let base = render(doc, &[]);
        // thorough: full 3-deviation ball for the small documents
        let kk = if tier == Tier::Thorough && base.points.len() <= 20 {
            4
        } else if base.points.len() <= tier.pick(40, 80) {
            3
        } else {
            k
        };
        let b = ball(&base.points, kk);
        total_cases += b.len() as u64;
        for d in &b {
            per_level[d.len()] += 1;
        }
        let s = par_slice(&ctx, &b, |dev, st| {
            let case = Case { doc: doc.clone(), deviations: dev.clone() };
            let fails = eval_case(&case, st, tree, spans);
            st.bump("spellings");
            for f in fails {
                st.fail(&case, f);
            }
        });
        stats = stats.merge(s);
        let text = base.text.clone();
        stats.outcome(&doc.canon());
        if stats.samples.len() < 4 {
            stats.samples.push(json!({"document": doc.show(), "default_spelling": text, "choice_points": base.points.len(), "spellings_in_ball": b.len()}));
        }
    }
    // layout sweep: every expressible namespace layout of 1-3 elements in its default spelling (an independent
    // renderer, not xot's serialiser), parsed by parse and parse_fragment
    if tree {
        use crate::nsscope::*;
        let sp = SPEC_TOTAL;
        let red = tier.pick(small_specs(), reduced_specs());
        let r = red.len() as u64;
        let lt = sp + sp * sp + 2 * r * r * r;
        let s = par_range(&ctx, lt, |i, st| {
            let t = if i < sp {
                layout_tree(0, &[spec_from(i)])
            } else if i < sp + sp * sp {
                let j = i - sp;
                layout_tree(1, &[spec_from(j / sp), spec_from(j % sp)])
            } else {
                let j = i - sp - sp * sp;
                let shape = if j < r * r * r { 2 } else { 3 };
                let j = j % (r * r * r);
                layout_tree(shape, &[red[(j / (r * r)) as usize], red[((j / r) % r) as usize], red[(j % r) as usize]])
            };
            let doc = A::doc(vec![t]);
            let Some(text) = crate::xmlwrite::render_default(&doc) else { return };
            st.bump("layouts_rendered");
            for frag in [false, true] {
                let mut xot = Xot::new();
                st.evals += 1;
                let r = catch(|| if frag { xot.parse_fragment(&text) } else { xot.parse(&text) });
                match r {
                    Ok(Ok(n)) => {
                        let got = read(&xot, n);
                        if let Some(d) = diff_class(&norm(&doc), &norm(&got)) {
                            st.fail(&Case { doc: doc.clone(), deviations: vec![] }, Fail::new(format!("layout-tree-differs|{}|{}", d, if frag { "parse_fragment" } else { "parse" }), format!("{:?} should denote {} but parsed as {}", text, doc.show(), got.show())));
                        }
                    }
                    other => st.fail(&Case { doc: doc.clone(), deviations: vec![] }, Fail::new(format!("layout-rejected|{}", if frag { "parse_fragment" } else { "parse" }), format!("{:?}: {:?}", text, other.map(|r| r.map(|_| ())))),),
                }
            }
        });
        total_cases += s.counters.get("layouts_rendered").copied().unwrap_or(0);
        stats = stats.merge(s);
    }
    // differential clause: parse_fragment(t) == children of parse("<w>" + t + "</w>")
    if tree {
        let frags = ["x<a/>y", "<a/><b/>", "<!--c-->t<?pi d?>", "a&amp;b<![CDATA[<]]>c", "<p:a xmlns:p='urn:x' p:k='1'>t</p:a> ", "\r\nx\r", ""];
        for t in frags {
            let mut xot = Xot::new();
            let f = xot.parse_fragment(t);
            let w = xot.parse(&format!("<w>{}</w>", t));
            stats.evals += 1;
            stats.bump("fragment_differential");
            match (f, w) {
                (Ok(f), Ok(w)) => {
                    let fa = read(&xot, f);
                    let wa = read(&xot, w);
                    if fa.ch != wa.ch[0].ch {
                        stats.fail(&json!({"fragment": t}), Fail::new("fragment-differs-from-wrapped", format!("{:?}: {} vs {}", t, fa.show(), wa.show())));
                    }
                }
                (f, w) => stats.fail(&json!({"fragment": t}), Fail::new("fragment-differential-rejected", format!("{:?}: {:?} / {:?}", t, f.is_ok(), w.is_ok()))),
            }
        }
    }
    // declared 8-bit encodings, exhaustively: every byte 0x80..=0xFF as the text and the attribute value of a
    // document declared windows-1252 must read as the character the WHATWG windows-1252 index gives it; under the
    // ISO-8859-1 labels every byte must read as the code point of the same number (0x80..=0x9F are the C1 controls
    // there - legal XML characters - not the windows-1252 punctuation)
    if tree {
        for (label, lo) in [("windows-1252", 0x80u32), ("ISO-8859-1", 0x80u32), ("iso-8859-1", 0x80), ("latin1", 0x80)] {
            for b in lo..=0xFF {
                let mut bytes = format!("<?xml version=\"1.0\" encoding=\"{}\"?><a k=\"", label).into_bytes();
                bytes.push(b as u8);
                bytes.extend_from_slice(b"\">x");
                bytes.push(b as u8);
                bytes.extend_from_slice(b"</a>");
                let want = if label == "windows-1252" { cp1252_char(b as u8) } else { char::from_u32(b).unwrap() };
                let mut xot = Xot::new();
                stats.evals += 1;
                stats.bump("single_byte_cases");
                let case = json!({"encoding": label, "byte": b});
                match catch(|| xot.parse_bytes(&bytes)) {
                    Ok(Ok(n)) => {
                        let got = read(&xot, n);
                        let exp = A::doc(vec![A::el("", "a").attr("", "k", &want.to_string()).child(A::text(&format!("x{}", want)))]);
                        if let Some(d) = diff_class(&norm(&exp), &norm(&got)) {
                            stats.fail(&case, Fail::new(format!("tree-differs|{}|declared-8-bit-encoding", d), format!("byte {:#04x} under {}: expected {:?}, parsed as {}", b, label, want, got.show())));
                        }
                    }
                    other => stats.fail(&case, Fail::new("rejected|declared-8-bit-encoding", format!("byte {:#04x} under {}: {:?}", b, label, other.map(|r| r.map(|_| ()).map_err(|e| format!("{:?}", e)))))),
                }
            }
        }
    }
    let need: &[&'static str] = if spans && !tree { &["spellings", "parsed", "spans_checked"] } else { &["spellings", "parsed", "xml_ids_checked"] };
    if let Err(e) = require_nonzero(&stats, need) {
        eprintln!("MACHINERY: {}", e);
        return 2;
    }
    // distinct = distinct spellings evaluated (every deviation set gives a different text or entry point)
    let mut cov = json!({
        "evaluations": stats.evals,
        "distinct_nontrivial": total_cases,
        "rule": format!("{} abstract documents (sharp characters in text and attribute values, structure with comments / PIs / top-level items, namespace layouts with shadowing, undeclaration, synonymous prefixes and a URI containing '&', xml:id / xml:space) x every spelling with at most {} deviations (3 for the small documents) from the default spelling over the renderer's choice points (character: literal / entity / decimal / hex / CDATA; line ends LF / CR / CRLF; attribute white space; quote style; in-tag white space; declaration / attribute interleaving; prefix choice; empty-element form; prolog; top-level white space; PI separator; xml:id padding; entry point parse / parse_with_span_info / parse_fragment / parse_bytes as UTF-8 +- BOM, UTF-16LE/BE, declared ISO-8859-1 / windows-1252); every single byte 0x80..=0xFF under a declared windows-1252 (and under ISO-8859-1 labels, where 0x80..=0x9F are C1 controls) as text and attribute value; distinct = number of deviation sets (each is a different text or entry point) plus the layouts of the layout sweep (every expressible namespace layout of 1-3 elements in the default spelling of an independent renderer, through parse and parse_fragment)", docs.len(), k),
        "documents": docs.len(),
        "deviation_levels": {"0": per_level[0], "1": per_level[1], "2": per_level[2], "3": per_level[3], "4": per_level[4]},
    });
    if let Some(o) = cov.as_object_mut() {
        o.insert("samples".into(), json!(stats.samples));
    }
    ctx.finish(stats, cov, vec!["the renderer computes the expected tree and byte offsets itself (nothing is re-parsed to obtain the expectation)".into()])
}

pub fn run(tier: Tier) -> i32 {
    run_generic("C02", tier, true, false)
}
