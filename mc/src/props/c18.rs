//! C18 Whitespace stripping removes exactly the insignificant whitespace.
use crate::atree::*;
use crate::common::*;
use crate::gen::*;
use serde::{Deserialize, Serialize};
use serde_json::json;
use xot::Xot;

#[derive(Serialize, Deserialize, Clone)]
pub struct Case {
    /// document tree; adjacent text nodes allowed (built with consolidation off)
    pub tree: A,
    /// walk_all index of the node the call is made on
    pub target: usize,
}

fn xml_ws(s: &str) -> bool {
    s.chars().all(|c| matches!(c, ' ' | '\t' | '\r' | '\n'))
}

/// model: returns the expected tree (with ids) after stripping below `target_id`
fn strip_model(a: &A, preserve: bool, active: bool, target_id: u32, removed: &mut Vec<u32>) -> A {
    let mut out = a.clone();
    let active = active || a.id == target_id;
    let preserve = if a.k == K::Elem {
        match a.attrs.iter().find(|x| x.ns == XML_NS && x.name == "space") {
            Some(x) => x.val.as_deref() == Some("preserve"),
            None => preserve,
        }
    } else {
        preserve
    };
    let sibling_content = a.ch.iter().any(|c| c.k == K::Text && !xml_ws(c.val.as_deref().unwrap_or("")));
    out.ch = vec![];
    for c in &a.ch {
        let c_active = active || c.id == target_id;
        if c.k == K::Text && c_active && !preserve && !sibling_content && xml_ws(c.val.as_deref().unwrap_or("")) {
            removed.push(c.id);
            continue;
        }
        out.ch.push(strip_model(c, preserve, active, target_id, removed));
    }
    out
}

pub fn eval(case: &Case) -> Vec<Fail> {
    let mut st = Stats::default();
    eval_case(case, &mut st)
}

fn feature(tree: &A, removed_model: &[u32], exp: &A, got: &A) -> String {
    // name the distinguishing feature of the first difference
    let _ = (tree, removed_model);
    match diff_class(exp, got) {
        Some(d) => {
            // find which text is involved: look for a text value in the expected tree that the observed lacks or vice versa
            fn texts(a: &A, out: &mut Vec<(u32, String)>) {
                if a.k == K::Text {
                    out.push((a.id, a.val.clone().unwrap_or_default()));
                }
                for c in &a.ch {
                    texts(c, out);
                }
            }
            let (mut te, mut tg) = (vec![], vec![]);
            texts(exp, &mut te);
            texts(got, &mut tg);
            let lost: Vec<&(u32, String)> = te.iter().filter(|x| !tg.contains(x)).collect();
            let kept: Vec<&(u32, String)> = tg.iter().filter(|x| !te.contains(x)).collect();
            let cls = |s: &str| {
                if s.is_empty() {
                    "empty"
                } else if xml_ws(s) {
                    "xml-whitespace"
                } else if s.chars().all(|c| c.is_whitespace()) {
                    "non-xml-unicode-space"
                } else {
                    "content"
                }
            };
            if let Some(l) = lost.first() {
                format!("wrongly-removed:{}", cls(&l.1))
            } else if let Some(k) = kept.first() {
                format!("wrongly-kept:{}", cls(&k.1))
            } else {
                format!("other:{}", d)
            }
        }
        None => "none".into(),
    }
}

pub fn eval_case(case: &Case, st: &mut Stats) -> Vec<Fail> {
    let mut fails = vec![];
    let mut xot = Xot::new();
    xot.set_text_consolidation(false);
    let mut handles = vec![];
    let root = build(&mut xot, &case.tree, &mut handles);
    xot.set_text_consolidation(true);
    let mut tab = HandleTable::from_nodes(&handles);
    let before = read_ids(&xot, root, &mut tab);
    let target = handles[case.target];
    let target_id = case.target as u32 + 1;
    let mut removed = vec![];
    let exp = if before.id == target_id && before.k == K::Text { before.clone() } else { strip_model(&before, false, false, target_id, &mut removed) };
    st.evals += 1;
    match catch(|| xot.remove_insignificant_whitespace(target)) {
        Err(p) => {
            fails.push(Fail::new(format!("panic|{}", panic_class(&p)), format!("{} on {}", p, case.tree.show())));
            return fails;
        }
        Ok(()) => {}
    }
    let after = read_ids(&xot, root, &mut tab);
    if after != exp {
        let f = feature(&case.tree, &removed, &exp, &after);
        fails.push(Fail::new(
            format!("strip|{}", f),
            format!("remove_insignificant_whitespace(#{}) on {}: expected {} got {}", case.target, case.tree.show(), exp.show(), after.show()),
        ));
        return fails;
    }
    if !removed.is_empty() {
        st.bump("removed_something");
        for r in &removed {
            if !xot.is_removed(handles[*r as usize - 1]) {
                fails.push(Fail::new("strip|removed-node-still-live", case.tree.show()));
            }
        }
    }
    // second call changes nothing (not applicable when the call target itself was stripped)
    if xot.is_removed(target) || removed.contains(&target_id) {
        return fails;
    }
    st.evals += 1;
    if catch(|| xot.remove_insignificant_whitespace(target)).is_err() {
        fails.push(Fail::new("panic|second-call", case.tree.show()));
        return fails;
    }
    let again = read_ids(&xot, root, &mut tab);
    if again != after {
        fails.push(Fail::new("strip|second-call-changes", format!("{}: {} then {}", case.tree.show(), after.show(), again.show())));
    }
    fails
}

fn child_menu() -> Vec<A> {
    vec![
        A::el("", "e"),
        A::text("x"),
        A::text(" "),
        A::text("\t\n"),
        A::text("\r"),
        A::text("\u{a0}"),
        A::text("\u{2003}"),
        A::comment("c"),
        A::el("", "e").child(A::text(" ")),
        A::el("", "e").attr(XML_NS, "space", "preserve").child(A::text(" ")),
        A::el("", "e").attr(XML_NS, "space", "default").child(A::text(" ")),
    ]
}

const SPACE: [Option<&str>; 4] = [None, Some("preserve"), Some("default"), Some("other")];

fn with_space(mut e: A, s: Option<&str>) -> A {
    if let Some(v) = s {
        e = e.attr(XML_NS, "space", v);
    }
    e
}

pub fn nth_case(tier: Tier, i: u64) -> Vec<Case> {
    let menu = child_menu();
    let maxc = tier.pick(4, 5);
    let nch = strings_count(menu.len() as u64, maxc);
    let levels = tier.pick(2, 3);
    let lv_total = 4u64.pow(levels);
    let ci = i % nch;
    let li = i / nch;
    debug_assert!(li < lv_total);
    let kids = nth_string(&menu, maxc, ci);
    let sp = mixed(&vec![4; levels as usize], li);
    let mut p = with_space(A::el("", "p"), SPACE[sp[levels as usize - 1]]);
    p.ch = kids;
    let mut t = p;
    for l in (0..levels as usize - 1).rev() {
        // outer levels also carry a whitespace text sibling so that stripping happens there too
        t = with_space(A::el("", "o"), SPACE[sp[l]]).child(A::text(" ")).child(t);
    }
    // plain document, and a fragment-style document: white space directly under the document node and a second
    // top-level element
    let trees = vec![A::doc(vec![t.clone()]), A::doc(vec![A::text(" "), t, A::text("\n"), A::el("", "q").child(A::text(" ")).child(A::el("", "e"))])];
    let mut out = vec![];
    for tree in trees {
        out.extend(cases_for(tree));
    }
    out
}

fn cases_for(tree: A) -> Vec<Case> {
    // targets: document, every element on the way down to P, P, first text child of P (if any)
    let mut idx_p = 0usize;
    let mut idx_first_text = None;
    let mut more_text: Vec<usize> = vec![];
    {
        let mut i = 0usize;
        let mut f = |n: &A| {
            if n.k == K::Elem && n.name == "p" {
                idx_p = i;
            }
            i += 1;
        };
        tree.walk_all(&mut f);
        // first text child of p: p index + attrs + 1 if first child is text
        fn find_p(a: &A) -> Option<&A> {
            if a.k == K::Elem && a.name == "p" {
                return Some(a);
            }
            a.ch.iter().find_map(find_p)
        }
        let p = find_p(&tree).unwrap();
        if p.ch.first().map(|c| c.k == K::Text).unwrap_or(false) {
            idx_first_text = Some(idx_p + p.attrs.len() + 1);
        }
        // every further text child of p (a text node between two other text nodes is its own case)
        let mut at = idx_p + p.attrs.len() + 1;
        for (n, c) in p.ch.iter().enumerate() {
            if n > 0 && c.k == K::Text {
                more_text.push(at);
            }
            at += c.size();
        }
    }
    let mut out = vec![Case { tree: tree.clone(), target: 0 }, Case { tree: tree.clone(), target: idx_p }];
    {
        // the outer elements
        let mut i = 0usize;
        let mut outer = vec![];
        tree.walk_all(&mut |n: &A| {
            if n.k == K::Elem && n.name == "o" {
                outer.push(i);
            }
            i += 1;
        });
        for o in outer {
            out.push(Case { tree: tree.clone(), target: o });
        }
    }
    for t in more_text {
        out.push(Case { tree: tree.clone(), target: t });
    }
    if let Some(t) = idx_first_text {
        out.push(Case { tree, target: t });
    }
    out
}

pub fn total(tier: Tier) -> u64 {
    strings_count(child_menu().len() as u64, tier.pick(4, 5)) * 4u64.pow(tier.pick(2, 3))
}

pub fn run(tier: Tier) -> i32 {
    let ctx = Ctx::new("C18", tier, "exploration");
    let tot = total(tier);
    let stats = par_range(&ctx, tot, |i, st| {
        for case in nth_case(tier, i) {
            let fails = eval_case(&case, st);
            st.bump("calls");
            if tot < 4_000_000 || i % 13 == 0 {
                st.outcome(&(i, case.target));
            }
            if i % 40_009 == 17 {
                st.sample(|| json!({"tree": case.tree.show(), "target": case.target}));
            }
            for f in fails {
                st.fail(&case, f);
            }
        }
    });
    if let Err(e) = require_nonzero(&stats, &["calls", "removed_something"]) {
        eprintln!("MACHINERY: {}", e);
        return 2;
    }
    let cov = json!({
        "rule": format!("element p with every sequence of <= {} children from {{<e/>, \"x\", \" \", TAB LF, CR, U+00A0, U+2003, comment, <e> </e>, <e xml:space=preserve> </e>, <e xml:space=default> </e>}} (adjacent text nodes included, built with consolidation off) nested in {} levels each with xml:space in {{absent, preserve, default, other}}; as a plain document and as a fragment-style document (white space directly under the document node, a second top-level element); called on the document, on every outer element, on p and on every text child of p; distinct = distinct (tree, target) pairs", tier.pick(4, 5), tier.pick(2, 3)),
        "trees": tot,
    });
    ctx.finish(stats, cov, vec!["empty text nodes are outside the alphabet (the statement does not classify them)".into()])
}
