//! C10 Serialisation never changes a name's meaning; missing prefixes can be repaired.
//! (a) E-TREE over namespace layouts without the serialisability filter, in several placements;
//! (b) E-BFS over histories alternating "add / move / clone nodes" with create_missing_prefixes.
use crate::atree::*;
use crate::bfs::*;
use crate::common::*;
use crate::histcommon::forest_show;
use crate::nsscope::*;
use crate::props::c01::{err_class, norm};
use crate::world::*;
use crate::xmlread::*;
use serde::{Deserialize, Serialize};
use serde_json::json;
use xot::{Node, Xot};

#[derive(Serialize, Deserialize, Clone)]
pub enum Case {
    Layout {
        tree: A,
        /// 0 document, 1 unattached element, 2 in-place subtree (second element of the layout), 3 fragment with the tree twice + text
        placement: u8,
    },
    Single(A),
    History(HistoryCase),
}

/// Oracle of the first clause: `to_string(node)` is Err, or text whose names resolve (by XmlRead) to the
/// expanded names of `expected` in document order with the same content.
pub fn faithful(xot: &Xot, node: Node, expected: &A, what: &str, fails: &mut Vec<Fail>, st: &mut Stats) -> Option<String> {
    st.evals += 1;
    match catch(|| xot.to_string(node)) {
        Err(p) => {
            fails.push(Fail::new(format!("panic|to_string|{}|{}", what, panic_class(&p)), format!("to_string panicked on {}: {}", expected.show(), p)));
            None
        }
        Ok(Err(_)) => {
            st.bump("to_string_err");
            None
        }
        Ok(Ok(text)) => {
            st.bump("to_string_ok");
            let exp = match expected.k {
                K::Doc => expected.clone(),
                _ => A::doc(vec![expected.clone()]),
            };
            match read_fragment(&text) {
                Read::WellFormed(got) => {
                    if let Some(d) = diff_class(&norm(&exp.without_decls()), &norm(&got.without_decls())) {
                        fails.push(Fail::new(
                            format!("meaning-changed|{}|{}", what, d),
                            format!("{} serialised as {:?}, which denotes {}", expected.show(), text, got.show()),
                        ));
                    }
                }
                Read::IllFormed(r) => fails.push(Fail::new(format!("output-ill-formed|{}|{}", what, r), format!("{} serialised as {:?}", expected.show(), text))),
                Read::Unknown(r) => fails.push(Fail::new(format!("output-unreadable|{}", what), format!("{} serialised as {:?}: {}", expected.show(), text, r))),
            }
            Some(text)
        }
    }
}

/// Oracle of the second clause, on a fresh build of `tree`; `target_idx` = walk index of the node given to
/// create_missing_prefixes; `root_idx` = walk index of the node that must serialise afterwards.
fn repair(tree: &A, target_idx: usize, what: &str, fails: &mut Vec<Fail>, st: &mut Stats) {
    let mut xot = Xot::new();
    let mut handles = vec![];
    let root = build(&mut xot, tree, &mut handles);
    let target = handles[target_idx];
    let mut tab = HandleTable::from_nodes(&handles);
    let before = read_ids(&xot, root, &mut tab);
    st.evals += 1;
    match catch(|| xot.create_missing_prefixes(target)) {
        Err(p) => {
            fails.push(Fail::new(format!("panic|create_missing_prefixes|{}|{}", what, panic_class(&p)), format!("{}: {}", tree.show(), p)));
            return;
        }
        Ok(Err(e)) => {
            // a document / fragment without any element has nothing to repair; whether the call answers Ok or an
            // error is not pinned by the statement as long as serialisation works
            fn has_element(a: &A) -> bool {
                a.k == K::Elem || a.ch.iter().any(has_element)
            }
            if !has_element(tree) && matches!(catch(|| xot.to_string(root)), Ok(Ok(_))) {
                st.bump("repair_refused_on_element_less_tree");
                return;
            }
            fails.push(Fail::new(format!("create_missing_prefixes-err|{}|{}", what, err_class(&format!("{:?}", e))), format!("{}: {:?}", tree.show(), e)));
            return;
        }
        Ok(Ok(())) => {}
    }
    let after = read_ids(&xot, root, &mut tab);
    if before.without_decls().canon_ids() != after.without_decls().canon_ids() {
        fails.push(Fail::new(format!("repair-changed-content|{}", what), format!("{} -> {}", before.show(), after.show())));
        return;
    }
    // declarations that existed keep their value, nothing is removed
    let mut ok_decls = true;
    fn decls(a: &A, out: &mut Vec<(u32, String, String)>) {
        for d in &a.nss {
            out.push((d.id, d.name.clone(), d.ns.clone()));
        }
        for c in &a.ch {
            decls(c, out);
        }
    }
    let (mut db, mut da) = (vec![], vec![]);
    decls(&before, &mut db);
    decls(&after, &mut da);
    for d in &db {
        if !da.contains(d) {
            ok_decls = false;
        }
    }
    if !ok_decls {
        fails.push(Fail::new(format!("repair-overrode-declaration|{}", what), format!("{} -> {}", before.show(), after.show())));
        return;
    }
    if da.len() > db.len() {
        st.bump("repairs_that_added_declarations");
    }
    // the repaired subtree serialises and means the same
    let sub = locate(&after, target_idx as u32 + 1).unwrap_or(&after).strip_ids();
    let mut local = vec![];
    match catch(|| xot.to_string(target)) {
        Err(p) => fails.push(Fail::new(format!("panic|to_string-after-repair|{}|{}", what, panic_class(&p)), tree.show())),
        Ok(Err(e)) => fails.push(Fail::new(
            format!("still-not-serialisable|{}|{}", what, err_class(&format!("{:?}", e))),
            format!("after create_missing_prefixes {} (target #{}) to_string fails: {:?}", after.show(), target_idx, e),
        )),
        Ok(Ok(_)) => {
            faithful(&xot, target, &sub, what, &mut local, st);
            for mut f in local {
                f.sig = format!("after-repair:{}", f.sig);
                fails.push(f);
            }
            // reparse with xot itself: deep-equal modulo declarations
            if let Ok(text) = xot.to_string(target) {
                let parsed = if sub.k == K::Doc { xot.parse_fragment(&text) } else { xot.parse(&text) };
                match parsed {
                    Err(e) => fails.push(Fail::new(format!("after-repair:reparse-err|{}|{}", what, err_class(&format!("{:?}", e))), format!("{:?}: {:?}", text, e))),
                    Ok(n) => {
                        let got = read(&xot, n);
                        let exp = if sub.k == K::Doc { sub.clone() } else { A::doc(vec![sub.clone()]) };
                        if let Some(d) = diff_class(&norm(&exp.without_decls()), &norm(&got.without_decls())) {
                            fails.push(Fail::new(format!("after-repair:reparse-differs|{}|{}", what, d), format!("{:?} reparsed as {}", text, got.show())));
                        }
                    }
                }
            }
        }
    }
}

fn locate(a: &A, id: u32) -> Option<&A> {
    if a.id == id {
        return Some(a);
    }
    a.ch.iter().find_map(|c| locate(c, id))
}

pub fn eval(case: &Case) -> Vec<Fail> {
    let mut st = Stats::default();
    eval_case(case, &mut st)
}

pub fn eval_case(case: &Case, st: &mut Stats) -> Vec<Fail> {
    let mut fails = vec![];
    match case {
        Case::History(h) => return replay_history(&C10, h),
        Case::Single(a) => {
            let mut xot = Xot::new();
            let n = build1(&mut xot, a);
            if matches!(a.k, K::Attr | K::Ns) {
                // a lone attribute / namespace node has no textual form of its own: only totality is required
                st.evals += 1;
                if let Err(p) = catch(|| xot.to_string(n)) {
                    fails.push(Fail::new(format!("panic|to_string|single-node|{}", panic_class(&p)), a.show()));
                }
            } else {
                faithful(&xot, n, a, "single-node", &mut fails, st);
            }
        }
        Case::Layout { tree, placement } => {
            let (whole, node_idx, expected, what): (A, usize, A, &str) = match placement {
                0 => (A::doc(vec![tree.clone()]), 0, A::doc(vec![tree.clone()]), "document"),
                1 => (tree.clone(), 0, tree.clone(), "unattached-element"),
                2 => {
                    // the first child element of the layout, serialised in place
                    let Some(c) = tree.ch.iter().find(|c| c.k == K::Elem) else { return fails };
                    let idx = 1 + 1 + tree.nss.len() + tree.attrs.len(); // doc, root, its ns/attr nodes
                    (A::doc(vec![tree.clone()]), idx, c.clone(), "in-place-subtree")
                }
                _ => {
                    let f = A::doc(vec![tree.clone(), A::text("t"), tree.clone()]);
                    (f.clone(), 0, f, "fragment")
                }
            };
            let mut xot = Xot::new();
            let mut handles = vec![];
            build(&mut xot, &whole, &mut handles);
            let node = handles[node_idx];
            // clause 1
            let mut exp_for_text = expected.clone();
            if *placement == 2 {
                // inherited declarations may be added on the top element of an in-place subtree
                exp_for_text = expected.clone();
            }
            faithful(&xot, node, &exp_for_text, what, &mut fails, st);
            if !fails.is_empty() {
                return fails;
            }
            // clause 2 (twice: hash order is observed, not controlled). An element in no namespace that itself
            // declares a non-empty default namespace cannot be written in XML at all (its own start tag puts
            // it into that namespace); no repair can exist without overriding that declaration, so such
            // trees are outside the clause.
            // The same goes for a declaration of a reserved prefix (xmlns, or xml bound to another namespace) and
            // for an attribute without namespace that is called xmlns: XML has no spelling for them as such.
            fn inexpressible(a: &A) -> bool {
                (a.k == K::Elem && a.ns.is_empty() && a.nss.iter().any(|d| d.name.is_empty() && !d.ns.is_empty()))
                    || a.nss.iter().any(|d| d.name == "xmlns" || d.ns == "http://www.w3.org/2000/xmlns/" || (d.name == "xml") != (d.ns == XML_NS))
                    || a.ns == "http://www.w3.org/2000/xmlns/"
                    || a.attrs.iter().any(|x| x.ns == "http://www.w3.org/2000/xmlns/")
                    || a.attrs.iter().any(|x| x.ns.is_empty() && x.name == "xmlns")
                    || a.ch.iter().any(inexpressible)
            }
            if inexpressible(&expected) {
                st.bump("inexpressible_skipped");
                return fails;
            }
            for _ in 0..2 {
                repair(&whole, node_idx, what, &mut fails, st);
                if !fails.is_empty() {
                    break;
                }
            }
        }
    }
    fails
}

// ------------------------------------------------------------------------------------
// histories

pub struct C10;

impl Oracle for C10 {
    fn ops(&self, _w: &World, forest: &[A], _depth: usize) -> Vec<Op> {
        use Op::*;
        let hs = canonical_handles(forest);
        let kind = |h: &H| find(forest, *h as u32 + 1).map(|n| n.k);
        let mut ops = vec![];
        let elems: Vec<H> = hs.iter().copied().filter(|h| kind(h) == Some(K::Elem)).collect();
        for &e in &elems {
            for n in 0..4u8 {
                ops.push(AppendElementNs(e, n));
                ops.push(SetAttrNs(e, n));
            }
            ops.push(DeclareN(e, 0, 2));
            ops.push(DeclareN(e, 1, 0));
            ops.push(CreateMissingPrefixes(e));
            for &p in &elems {
                if p != e {
                    ops.push(Append(p, e));
                    ops.push(CloneAppend(e, p));
                }
            }
        }
        for &h in &hs {
            if kind(&h) == Some(K::Doc) {
                ops.push(CreateMissingPrefixes(h));
            }
        }
        ops
    }
    fn judge(&self, s: Step, st: &mut Stats) -> Verdict {
        let mut fails = vec![];
        let Outcome::Ok(_) = s.outcome else {
            if let Outcome::Panic(p) = s.outcome {
                fails.push(Fail::new(format!("panic|{}|{}", s.op.name(), panic_class(p)), format!("{:?} on [{}]", s.op, forest_show(s.pre_forest))));
            }
            return Verdict { fails, expand: false };
        };
        let Ok(pf) = s.post_forest else { return Verdict { fails, expand: false } };
        let ctx = |d: &str| format!("{:?} on [{}] -> [{}]: {}", s.op, forest_show(s.pre_forest), forest_show(pf), d);
        // clause 1 on every tree of the forest
        for t in pf {
            let n = s.post.node(t.id as usize - 1);
            let mut local = vec![];
            faithful(&s.post.xot, n, &t.strip_ids(), "history", &mut local, st);
            for mut f in local {
                f.detail = ctx(&f.detail);
                fails.push(f);
            }
        }
        if let Op::CreateMissingPrefixes(h) = s.op {
            st.bump("repairs_in_histories");
            // nothing but declarations changed; declarations only added
            let pre_c: Vec<String> = s.pre_forest.iter().map(|t| t.without_decls().canon_ids()).collect();
            let post_c: Vec<String> = pf.iter().map(|t| t.without_decls().canon_ids()).collect();
            if pre_c != post_c {
                fails.push(Fail::new("repair-changed-content|history", ctx("")));
            }
            fn decls(a: &A, out: &mut Vec<(u32, String, String)>) {
                for d in &a.nss {
                    out.push((d.id, d.name.clone(), d.ns.clone()));
                }
                for c in &a.ch {
                    decls(c, out);
                }
            }
            let (mut db, mut da) = (vec![], vec![]);
            s.pre_forest.iter().for_each(|t| decls(t, &mut db));
            pf.iter().for_each(|t| decls(t, &mut da));
            if db.iter().any(|d| !da.contains(d)) {
                fails.push(Fail::new("repair-overrode-declaration|history", ctx("an existing declaration was changed or removed")));
            }
            // the repaired node serialises
            let n = s.post.node(*h);
            if let Ok(Err(e)) = catch(|| s.post.xot.to_string(n)) {
                fails.push(Fail::new(format!("still-not-serialisable|history|{}", err_class(&format!("{:?}", e))), ctx(&format!("{:?}", e))));
            }
        }
        let expand = fails.is_empty();
        Verdict { fails, expand }
    }
}

fn history_starts() -> Vec<Start> {
    let s = |name: &str, forest: Vec<A>| Start { name: name.into(), forest, adjacent_text: false, consolidation: true , parse: vec![]};
    vec![
        s("plain", vec![A::doc(vec![A::el("", "r").child(A::el("", "a"))])]),
        s("declared-x", vec![A::doc(vec![A::el(X, "r").decl("p", X).child(A::el(X, "a").attr(X, "k", "1"))]), A::el("", "u")]),
        s("default-y", vec![A::doc(vec![A::el(Y, "r").decl("", Y).child(A::el(Y, "a"))])]),
    ]
}

fn layout_total(tier: Tier) -> u64 {
    let s = SPEC_TOTAL;
    let r = tier.pick(small_specs(), reduced_specs()).len() as u64;
    s + s * s + 2 * match tier {
        Tier::Quick => r * r * r / 2,
        Tier::Thorough => r * r * r,
    }
}
fn layout_case(tier: Tier, mut i: u64) -> A {
    let s = SPEC_TOTAL;
    let red = tier.pick(small_specs(), reduced_specs());
    let r = red.len() as u64;
    if i < s {
        return layout_tree(0, &[spec_from(i)]);
    }
    i -= s;
    if i < s * s {
        return layout_tree(1, &[spec_from(i / s), spec_from(i % s)]);
    }
    i -= s * s;
    let g3 = match tier {
        Tier::Quick => r * r * r / 2,
        Tier::Thorough => r * r * r,
    };
    let shape = if i < g3 { 2 } else { 3 };
    let mut j = i % g3;
    if tier == Tier::Quick {
        j *= 2; // every second index of the cube
        if shape == 3 {
            j += 1;
        }
    }
    layout_tree(shape, &[red[((j / (r * r)) % r) as usize], red[((j / r) % r) as usize], red[(j % r) as usize]])
}

pub fn run(tier: Tier) -> i32 {
    let ctx = Ctx::new("C10", tier, "model_checking");
    let lt = layout_total(tier);
    let mut stats = par_range(&ctx, lt, |i, st| {
        let t = layout_case(tier, i);
        let n_el = t.normal_size();
        for placement in 0..4u8 {
            if placement == 2 && n_el < 2 {
                continue;
            }
            if placement == 3 && i % 4 != 0 {
                continue;
            }
            let case = Case::Layout { tree: t.clone(), placement };
            let fails = eval_case(&case, st);
            st.bump("layout_cases");
            for f in fails {
                st.fail(&case, f);
            }
        }
        if lt < 4_000_000 || i % 97 == 0 {
            st.outcome(&i);
        }
        if i % 200_003 == 3 {
            st.sample(|| json!({"layout": t.show()}));
        }
    });
    // single detached nodes of every kind
    let singles = vec![A::text("t"), A::text("<&"), A::comment("c"), A::pi("pi", Some("d")), A::pi("pi", None), A::attr_node("", "k", "v"), A::attr_node(X, "k", "v"), A::ns_node("p", X), A::ns_node("", X), A::doc(vec![]), A::doc(vec![A::text("t")]), A::doc(vec![A::comment("c")])];
    for a in singles {
        let case = Case::Single(a);
        let fails = eval_case(&case, &mut stats);
        stats.bump("single_cases");
        for f in fails {
            stats.fail(&case, f);
        }
    }
    // namespace URIs that need escaping in a declaration, declared and undeclared (the repair then writes them)
    for u in ["u&v", "u<v", "u\"v", "u'v", "u\tv", "u\nv", "u v"] {
        for t in [A::el(u, "a").decl("p", u), A::el(u, "a").decl("", u), A::el(u, "a"), A::el("", "a").attr(u, "k", "v"), A::el("", "a").child(A::el(u, "b").attr(u, "k", "v"))] {
            let case = Case::Layout { tree: t, placement: 0 };
            let fails = eval_case(&case, &mut stats);
            stats.bump("uri_cases");
            for f in fails {
                stats.fail(&case, f);
            }
        }
    }
    // reserved names and namespaces ("for any tree at all"): the XML namespace bound to something other than the xml
    // prefix, the xml prefix bound elsewhere, an attribute or a prefix spelled xmlns. None of these has a faithful
    // spelling as such: the serialiser must find one (the xml prefix is always available) or answer with an error
    for t in [
        A::el(XML_NS, "a").decl("", XML_NS).child(A::el(XML_NS, "b")),
        A::el(XML_NS, "a").decl("foo", XML_NS).attr(XML_NS, "lang", "en"),
        A::el("", "a").decl("foo", XML_NS).attr(XML_NS, "lang", "en").child(A::el(XML_NS, "b")),
        A::el("", "a").decl("xml", "urn:other").attr(XML_NS, "lang", "en"),
        A::el("urn:other", "a").decl("xml", "urn:other"),
        A::el("", "a").attr("", "xmlns", "urn:v").child(A::el("", "c")),
        A::el(X, "b").decl("", X).attr("", "xmlns", "v"),
        A::el("", "a").decl("xmlns", X).attr(X, "foo", "v"),
        A::el(X, "a").decl("xmlns", X),
        A::el("", "a").child(A::el("", "xmlns").attr(X, "xmlns", "1").decl("p", X)),
        A::el("", "a").attr("http://www.w3.org/2000/xmlns/", "foo", "v"),
        A::el("http://www.w3.org/2000/xmlns/", "a").decl("p", "http://www.w3.org/2000/xmlns/"),
    ] {
        let case = Case::Layout { tree: t, placement: 0 };
        let fails = eval_case(&case, &mut stats);
        stats.bump("reserved_name_cases");
        for f in fails {
            stats.fail(&case, f);
        }
    }
    // a text normalizer must not touch names: namespace URIs are names, not text
    {
        struct Composer;
        impl xot::output::Normalizer for Composer {
            fn normalize<'a>(&self, content: std::borrow::Cow<'a, str>) -> std::borrow::Cow<'a, str> {
                if content.contains("e\u{301}") {
                    std::borrow::Cow::Owned(content.replace("e\u{301}", "\u{e9}"))
                } else {
                    content
                }
            }
        }
        let ns = "http://cafe\u{301}.example/ns";
        for t in [A::el(ns, "menu").decl("", ns).child(A::el(ns, "item").attr("", "k", "cafe\u{301}")), A::el("", "a").decl("p", ns).attr(ns, "k", "v")] {
            let doc = A::doc(vec![t]);
            let mut xot = Xot::new();
            let root = build1(&mut xot, &doc);
            stats.evals += 1;
            stats.bump("normalizer_cases");
            let case = Case::Layout { tree: doc.ch[0].clone(), placement: 0 };
            match catch(|| xot.serialize_xml_string_with_normalizer(Default::default(), root, Composer)) {
                Ok(Ok(text)) => match read_document(&text) {
                    Read::WellFormed(got) => {
                        // names must be untouched; attribute values and text are the normalizer's to change
                        fn names(a: &A, out: &mut Vec<(String, String)>) {
                            if a.k == K::Elem {
                                out.push((a.ns.clone(), a.name.clone()));
                                for x in &a.attrs {
                                    out.push((x.ns.clone(), x.name.clone()));
                                }
                            }
                            for c in &a.ch {
                                names(c, out);
                            }
                        }
                        let (mut e, mut g) = (vec![], vec![]);
                        names(&doc, &mut e);
                        names(&got, &mut g);
                        if e != g {
                            stats.fail(&case, Fail::new("meaning-changed|normalizer-applied-to-namespace-uri", format!("{:?}: names {:?} became {:?}", text, e, g)));
                        }
                    }
                    other => stats.fail(&case, Fail::new("output-unreadable|with-normalizer", format!("{:?}: {:?}", text, matches!(other, Read::Unknown(_))))),
                },
                Ok(Err(_)) => {}
                Err(p) => stats.fail(&case, Fail::new("panic|serialize_xml_string_with_normalizer", p)),
            }
        }
    }
    // element-less and multi-element fragments through create_missing_prefixes
    for f in [A::doc(vec![]), A::doc(vec![A::text("t")]), A::doc(vec![A::el(X, "a"), A::el(Y, "b")]), A::doc(vec![A::comment("c"), A::el(X, "a"), A::text("t"), A::el(X, "b").attr(Y, "k", "1")])] {
        let mut fails = vec![];
        repair(&f, 0, "fragment", &mut fails, &mut stats);
        stats.bump("fragment_repairs");
        for fl in fails {
            stats.fail(&Case::Layout { tree: f.clone(), placement: 9 }, fl);
        }
    }
    // histories
    let depth = tier.pick(3, 4);
    let hs = history_starts();
    let r = bfs(&ctx, &C10, &hs, depth);
    stats = stats.merge(r.stats);
    if let Err(e) = require_nonzero(&stats, &["layout_cases", "to_string_ok", "to_string_err", "repairs_that_added_declarations", "repairs_in_histories"]) {
        eprintln!("MACHINERY: {}", e);
        return 2;
    }
    let cov = json!({
        "states": r.states,
        "transitions": r.transitions,
        "traces_validated_against_impl": r.transitions,
        "rule": "(a) every namespace layout of 1-3 elements (no serialisability filter) as document, unattached element, in-place subtree and fragment, plus single detached nodes and element-less / multi-element fragments: to_string is Err or text whose names, resolved by the independent XmlRead, are the tree's expanded names; create_missing_prefixes then makes it serialise, changes nothing but declarations, overrides none; (b) BFS over histories of {append element / set attribute in one of 4 namespaces, pre-declare n0 / n1, move an element, clone-and-attach, create_missing_prefixes(any element | document)}; states = distinct canonical forests",
        "bounds": {"layouts": lt, "bfs_depth": depth, "starts": hs.len()},
        "levels_completed": r.levels,
    });
    ctx.finish(stats, cov, vec!["hash iteration order observed, not controlled: every repair is evaluated twice on fresh builds; prefix names are never compared".into(), "XmlRead is trusted (self-tested)".into()])
}
