//! C05 Each manipulation call has exactly the effect an ordered-tree model predicts.
//! E-BFS with the reference model `MForest` in lock-step; only in-contract successful calls are judged.
use crate::atree::*;
use crate::bfs::*;
use crate::common::*;
use crate::gen::*;
use crate::histcommon::*;
use crate::mforest::*;
use crate::world::*;
use serde_json::json;

pub type Case = HistoryCase;

pub struct C05;

fn classify(pred: &Prediction, real: &[A], pre: &[A]) -> String {
    // name the first difference between the predicted and the observed forest
    let count = |f: &[A]| f.iter().map(|t| t.size()).sum::<usize>();
    let texts = |f: &[A]| {
        let mut v = vec![];
        for t in f {
            t.walk_all(&mut |n: &A| {
                if n.k == K::Text {
                    v.push(n.val.clone().unwrap_or_default());
                }
            });
        }
        v.sort();
        v
    };
    let all_text = |f: &[A]| f.iter().map(|t| t.string_value()).collect::<Vec<_>>().concat().len();
    let (pm, pr) = (count(&pred.forest), count(real));
    if pm != pr {
        if all_text(&pred.forest) != all_text(real) {
            return if all_text(real) < all_text(&pred.forest) { "text-lost".into() } else { "text-duplicated".into() };
        }
        let tp = texts(&pred.forest);
        let tr = texts(real);
        if tr.len() > tp.len() {
            return "text-not-merged".into();
        }
        if tr.len() < tp.len() {
            return "text-merged-unexpectedly".into();
        }
        return if pr < pm { "node-lost".into() } else { "extra-node".into() };
    }
    if count(pre) == pr && pre.iter().map(|t| t.canon_ids()).collect::<Vec<_>>() == real.iter().map(|t| t.canon_ids()).collect::<Vec<_>>() {
        return "nothing-happened".into();
    }
    let strip = |f: &[A]| {
        let mut v: Vec<String> = f.iter().map(|t| t.canon()).collect();
        v.sort();
        v
    };
    if strip(&pred.forest) == strip(real) {
        return "wrong-handle-survives-or-moved".into();
    }
    if texts(&pred.forest) != texts(real) {
        return "text-content-differs".into();
    }
    "structure-differs".into()
}

impl Oracle for C05 {
    fn ops(&self, _w: &World, forest: &[A], _depth: usize) -> Vec<Op> {
        all_ops(forest, OpMenu { creation: true, parse: true, consolidation_switch: false, helpers: false })
    }
    fn judge(&self, s: Step, st: &mut Stats) -> Verdict {
        let mut fails = vec![];
        let Some(pred) = predict(s.pre, s.pre_forest, s.op) else {
            st.bump("out_of_contract");
            return Verdict { fails, expand: false };
        };
        st.bump("in_contract");
        let call = call_signature(s.pre, s.pre_forest, s.op);
        let ctx = |detail: &str| format!("{:?} on [{}] (consolidation {}) -> {:?}: {}", s.op, forest_show(s.pre_forest), s.pre.consolidation, s.outcome, detail);
        match s.outcome {
            Outcome::Ok(_) => {}
            Outcome::Err(_) => {
                st.bump("in_contract_but_refused");
                return Verdict { fails, expand: false };
            }
            Outcome::Panic(_) => {
                st.bump("in_contract_but_panicked");
                return Verdict { fails, expand: false };
            }
        }
        let pf = match s.post_forest {
            Ok(pf) => pf,
            Err(e) => {
                fails.push(Fail::new(format!("model:unreadable|{}", call), ctx(e)));
                return Verdict { fails, expand: false };
            }
        };
        let fresh_from = s.pre.tab.len() as u32 + 1;
        let mut chosen = pred.clone();
        let mut merged_into_later = false;
        let mut ok = forests_match(&pred.forest, pf, fresh_from);
        if !ok {
            if let Some(q) = swap_lenient(&pred) {
                if forests_match(&q.forest, pf, fresh_from) {
                    // the character data is right, but the merge kept the *later* of the two text nodes and destroyed
                    // the earlier one; the statement says "merged into the earlier one"
                    ok = true;
                    chosen = q;
                    merged_into_later = true;
                }
            }
        }
        if !ok {
            for alt in &pred.alternatives {
                if forests_match(&alt.forest, pf, fresh_from) {
                    ok = true;
                    chosen = alt.clone();
                    st.bump("alternative_outcome_accepted");
                    break;
                }
            }
        }
        if !ok {
            let cls = classify(&pred, pf, s.pre_forest);
            fails.push(Fail::new(format!("model:{}|{}", cls, call), ctx(&format!("model predicts [{}], observed [{}]", forest_show(&pred.forest), forest_show(pf)))));
            return Verdict { fails, expand: false };
        }
        // liveness of every previously known handle
        for h in 0..s.pre.tab.len() {
            if s.pre.dead[h] {
                continue;
            }
            let should_be_dead = chosen.removed.contains(&(h as u32 + 1));
            if s.post.dead[h] != should_be_dead {
                fails.push(Fail::new(
                    format!("model:liveness-{}|{}", if should_be_dead { "should-be-removed" } else { "wrongly-removed" }, call),
                    ctx(&format!("handle #{} removed={} but model says removed={}", h + 1, s.post.dead[h], should_be_dead)),
                ));
                break;
            }
        }
        // string_value of every root
        for t in pf {
            let n = s.post.node(t.id as usize - 1);
            if t.k != K::Ns && s.post.xot.string_value(n) != t.string_value() {
                fails.push(Fail::new(format!("model:string_value|{}", call), ctx("string_value differs from concatenated descendant text")));
            }
        }
        if !pred.removed.is_empty() && s.pre.consolidation && pred.removed.iter().any(|r| find(s.pre_forest, *r).map(|n| n.k == K::Text).unwrap_or(false)) {
            st.bump("merges_or_text_removals");
        }
        let expand = fails.is_empty();
        if merged_into_later && expand {
            // reported, and the successor state is still explored (see bfs::SOFT_SIGNATURE)
            fails.push(Fail::new(format!("{}|{}", crate::bfs::SOFT_SIGNATURE, s.op.name()), ctx(&format!("model predicts [{}] (earlier text node survives), observed [{}]", forest_show(&pred.forest), forest_show(pf)))));
        }
        Verdict { fails, expand }
    }
}

pub fn eval(case: &Case) -> Vec<Fail> {
    replay_history(&C05, case)
}

fn sweep_starts(tier: Tier) -> Vec<Start> {
    let al = TreeAlphabet {
        elements: vec![A::el("", "a"), A::el("", "b").attr("", "k", "1").decl("p", crate::nsscope::X)],
        leaves: vec![A::text("t"), A::comment("c")],
        adjacent_text: false,
    };
    let n = 5;
    let mut out = vec![];
    for k in 1..=n {
        for f in forests(&al, k) {
            for consolidation in [true, false] {
                out.push(Start {
                    name: format!("sweep:{}:{}", consolidation, forest_show(&[A::doc(f.clone())])),
                    forest: vec![A::doc(f.clone()), A::el("", "e").child(A::text("u"))],
                    adjacent_text: false,
                    consolidation,
                    parse: vec![],
                });
            }
        }
    }
    out
}

pub fn run(tier: Tier) -> i32 {
    let ctx = Ctx::new("C05", tier, "model_checking");
    let depth = tier.pick(2, 3);
    let mut st = vec![];
    for s in starts() {
        if s.is_mixed() {
            continue; // histories mixing consolidation on and off are C04's and C06's
        }
        let mut off = s.clone();
        off.consolidation = false;
        off.name = format!("{}(consolidation off)", off.name);
        st.push(s);
        st.push(off);
    }
    let mut r = bfs(&ctx, &C05, &st, depth);
    let mut tiny = vec![];
    for s in tiny_starts() {
        let mut off = s.clone();
        off.consolidation = false;
        off.name = format!("{}(consolidation off)", off.name);
        tiny.push(s);
        tiny.push(off);
    }
    let rt = bfs(&ctx, &C05, &tiny, depth + 1);
    r.stats = r.stats.merge(rt.stats);
    r.states += rt.states;
    r.transitions += rt.transitions;
    r.levels.extend(rt.levels);
    let sw = sweep_starts(tier);
    let r2 = sweep_depth1(&ctx, &C05, &sw);
    r.stats = r.stats.merge(r2.stats);
    r.states += r2.states;
    r.transitions += r2.transitions;
    if let Err(e) = require_nonzero(&r.stats, &["in_contract", "out_of_contract", "merges_or_text_removals", "calls_ok"]) {
        eprintln!("MACHINERY: {}", e);
        return 2;
    }
    let cov = json!({
        "states": r.states,
        "transitions": r.transitions,
        "traces_validated_against_impl": r.transitions,
        "rule": "states = distinct canonical forests; a transition = one manipulation call on the real Xot with one argument tuple; the reference model MForest predicts the forest after every in-contract call and the full read-back (structure, values, handle identity, liveness, string_value) must match; only states reached by in-contract successful calls are expanded",
        "bounds": {"bfs_depth": depth, "starts": st.len(), "tiny_starts_one_level_deeper": tiny.len(), "depth1_sweep_starts": sw.len(), "sweep_max_nodes": 5},
        "levels_completed": r.levels.iter().filter(|l| !l["start"].as_str().unwrap_or("").starts_with("sweep:")).collect::<Vec<_>>(),
    });
    ctx.finish(r.stats, cov, vec!["which node of a merged text run survives is checked only where statement and rustdoc agree (DESIGN 3/C05)".into(), "histories mixing consolidation on and off are C04's".into()])
}
