//! C15 deduplicate_namespaces only removes redundant declarations.
use crate::atree::*;
use crate::common::*;
use crate::gen::mixed;
use crate::nsscope::*;
use crate::props::c01::{err_class, norm};
use serde::{Deserialize, Serialize};
use serde_json::json;
use xot::Xot;

#[derive(Serialize, Deserialize, Clone)]
pub struct Case {
    pub tree: A,
    /// walk_all index (in the document) of the node the call is made on
    pub target: usize,
}

fn decls_by_element(a: &A, out: &mut Vec<(u32, Vec<(u32, String, String)>)>) {
    if a.k == K::Elem {
        out.push((a.id, a.nss.iter().map(|n| (n.id, n.name.clone(), n.ns.clone())).collect()));
    }
    for c in &a.ch {
        decls_by_element(c, out);
    }
}

pub fn eval(case: &Case) -> Vec<Fail> {
    let mut st = Stats::default();
    eval_case(case, &mut st)
}

pub fn eval_case(case: &Case, st: &mut Stats) -> Vec<Fail> {
    let mut fails = vec![];
    let mut xot = Xot::new();
    let mut handles = vec![];
    let root = build(&mut xot, &case.tree, &mut handles);
    let mut tab = HandleTable::from_nodes(&handles);
    let before = read_ids(&xot, root, &mut tab);
    let text_before = xot.to_string(root);
    let target = handles[case.target];
    st.evals += 1;
    if let Err(p) = catch(|| xot.deduplicate_namespaces(target)) {
        fails.push(Fail::new(format!("panic|{}", panic_class(&p)), format!("{}: {}", case.tree.show(), p)));
        return fails;
    }
    let after = read_ids(&xot, root, &mut tab);
    // nothing but declarations may change
    if before.without_decls().canon_ids() != after.without_decls().canon_ids() {
        let d = diff_class(&before.without_decls(), &after.without_decls()).unwrap_or_else(|| "handles".into());
        fails.push(Fail::new(format!("content-changed|{}", d), format!("{} -> {}", before.show(), after.show())));
        return fails;
    }
    // declarations after are a sub-list of the declarations before (same nodes, same values)
    let (mut db, mut da) = (vec![], vec![]);
    decls_by_element(&before, &mut db);
    decls_by_element(&after, &mut da);
    let mut removed = 0;
    for ((_, b), (_, a)) in db.iter().zip(da.iter()) {
        for d in a {
            if !b.contains(d) {
                fails.push(Fail::new("declaration-added-or-altered", format!("{} -> {}: {:?} not among {:?}", before.show(), after.show(), d, b)));
            }
        }
        removed += b.len() - a.iter().filter(|d| b.contains(d)).count();
    }
    if removed > 0 {
        st.bump("calls_that_removed");
        st.add("declarations_removed", removed as u64);
    }
    if !fails.is_empty() {
        return fails;
    }
    // "only removes redundant declarations": a name that its scope (the declarations of the whole tree, those above
    // the call target included) expressed directly before the call - an element without namespace where no default
    // namespace is in effect, a namespaced element under some prefix or the default bound to its namespace, a
    // namespaced attribute under a non-empty prefix - is still expressed directly afterwards. (to_string cannot see
    // this: the serialiser repairs a lost xmlns="" on its own.)
    {
        fn direct(a: &A, outer: &Scope, out: &mut Vec<(String, bool)>) {
            match a.k {
                K::Elem => {
                    let s = enter(outer, a);
                    let ok = if a.ns.is_empty() { !s.contains_key("") } else { s.values().any(|u| *u == a.ns) };
                    out.push((format!("element-{}", if a.ns.is_empty() { "without-namespace" } else { "namespaced" }), ok));
                    for at in &a.attrs {
                        if !at.ns.is_empty() {
                            out.push(("attribute".into(), attr_expressible(&s, &at.ns)));
                        }
                    }
                    for c in &a.ch {
                        direct(c, &s, out);
                    }
                }
                K::Doc => {
                    for c in &a.ch {
                        direct(c, outer, out);
                    }
                }
                _ => {}
            }
        }
        let (mut b, mut a) = (vec![], vec![]);
        direct(&before, &base_scope(), &mut b);
        direct(&after, &base_scope(), &mut a);
        for ((kind, was), (_, is)) in b.iter().zip(a.iter()) {
            if *was && !*is {
                fails.push(Fail::new(
                    format!("needed-declaration-removed|{}", kind),
                    format!("{} (call on #{}) -> {}: a name that was expressed by the declarations in scope no longer is", before.show(), case.target, after.show()),
                ));
                break;
            }
        }
        st.bump("direct_expression_checked");
    }
    if !fails.is_empty() {
        return fails;
    }
    // serialisability is kept, reparse equal modulo declarations
    // (only for trees that serialise *faithfully* before the call: to_string is Ok and its output reparses to
    // the original modulo declarations; whether serialisation is faithful at all is C10's subject)
    let faithful_before = match &text_before {
        Ok(tb) => {
            let mut x2 = Xot::new();
            match x2.parse(tb) {
                Ok(n) => diff_class(&norm(&case.tree.without_decls()), &norm(&read(&x2, n).without_decls())).is_none(),
                Err(_) => false,
            }
        }
        Err(_) => false,
    };
    if !faithful_before {
        st.bump("skipped_not_serialisable_before");
    } else if let Ok(tb) = &text_before {
        match catch(|| xot.to_string(root)) {
            Err(p) => fails.push(Fail::new(format!("panic|to_string|{}", panic_class(&p)), case.tree.show())),
            Ok(Err(e)) => {
                fails.push(Fail::new(
                    format!("no-longer-serialisable|{}|{}", err_class(&format!("{:?}", e)), why_inexpressible(&after)),
                    format!("{} (call on #{}) serialised as {:?} before; after deduplication {} fails with {:?}", case.tree.show(), case.target, tb, after.show(), e),
                ));
            }
            Ok(Ok(ta)) => match xot.parse(&ta) {
                Err(e) => fails.push(Fail::new(format!("reparse-err|{}", err_class(&format!("{:?}", e))), format!("{} -> {:?}: {:?}", case.tree.show(), ta, e))),
                Ok(n) => {
                    let got = read(&xot, n);
                    if let Some(d) = diff_class(&norm(&case.tree.without_decls()), &norm(&got.without_decls())) {
                        fails.push(Fail::new(
                            format!("meaning-changed|{}", d),
                            format!("{} (call on #{}) after deduplication serialises as {:?} which reparses as {}", case.tree.show(), case.target, ta, got.show()),
                        ));
                    }
                    st.bump("serialisable_checked");
                }
            },
        }
    }
    // a second call removes nothing
    st.evals += 1;
    if catch(|| xot.deduplicate_namespaces(target)).is_err() {
        fails.push(Fail::new("panic|second-call", case.tree.show()));
        return fails;
    }
    let again = read_ids(&xot, root, &mut tab);
    if again.canon_ids() != after.canon_ids() {
        fails.push(Fail::new(format!("second-call-removes|{}", second_removed_kind(&after, &again)), format!("{}: first call -> {}, second call -> {}", case.tree.show(), after.show(), again.show())));
    }
    fails
}

fn total(tier: Tier) -> u64 {
    let s = SPEC_TOTAL;
    let r = tier.pick(small_specs(), reduced_specs()).len() as u64;
    s + s * s + 2 * match tier {
        Tier::Quick => r * r * r,
        Tier::Thorough => s * r * r,
    }
}

fn nth_tree(tier: Tier, mut i: u64) -> A {
    let s = SPEC_TOTAL;
    let red = tier.pick(small_specs(), reduced_specs());
    let r = red.len() as u64;
    if i < s {
        return layout_tree(0, &[spec_from(i)]);
    }
    i -= s;
    if i < s * s {
        return layout_tree(1, &[spec_from(i / s), spec_from(i % s)]);
    }
    i -= s * s;
    let g3 = match tier {
        Tier::Quick => r * r * r,
        Tier::Thorough => s * r * r,
    };
    let shape = if i < g3 { 2 } else { 3 };
    let j = i % g3;
    let specs = match tier {
        Tier::Quick => [red[(j / (r * r)) as usize], red[((j / r) % r) as usize], red[(j % r) as usize]],
        Tier::Thorough => [spec_from(j / (r * r)), red[((j / r) % r) as usize], red[(j % r) as usize]],
    };
    layout_tree(shape, &specs)
}

pub fn run(tier: Tier) -> i32 {
    let ctx = Ctx::new("C15", tier, "exploration");
    let tot = total(tier);
    let stats = par_range(&ctx, tot, |i, st| {
        let t = A::doc(vec![nth_tree(tier, i)]);
        // call targets: the document and every element
        let mut targets = vec![];
        let mut idx = 0usize;
        t.walk_all(&mut |n: &A| {
            if matches!(n.k, K::Doc | K::Elem) {
                targets.push(idx);
            }
            idx += 1;
        });
        for target in targets {
            let case = Case { tree: t.clone(), target };
            let fails = eval_case(&case, st);
            st.bump("calls");
            for f in fails {
                st.fail(&case, f);
            }
        }
        if tot < 4_000_000 || i % 97 == 0 {
            st.outcome(&i);
        }
        if i % 200_003 == 7 {
            st.sample(|| json!({"tree": t.show()}));
        }
    });
    // deeper shapes over a 12-spec menu: chains of four and the five-element shape root > r > [a > x, b]
    let tiny = tiny_specs();
    let tn = tiny.len() as u64;
    let deep_total = tn.pow(4) + tn.pow(5);
    let deep = par_range(&ctx, deep_total, |i, st| {
        let tree = if i < tn.pow(4) {
            let d = mixed(&[tn as usize; 4], i);
            elem_from(&tiny[d[0]], "a").child(elem_from(&tiny[d[1]], "b").child(elem_from(&tiny[d[2]], "c").child(elem_from(&tiny[d[3]], "d"))))
        } else {
            let d = mixed(&[tn as usize; 5], i - tn.pow(4));
            let specs: Vec<ElemSpec> = d.iter().map(|k| tiny[*k]).collect();
            layout_tree(4, &specs)
        };
        let t = A::doc(vec![tree]);
        // call targets: the document, the top element and the second element
        for target in [0usize, 1, 1 + 1 + t.ch[0].nss.len() + t.ch[0].attrs.len()] {
            let case = Case { tree: t.clone(), target };
            let fails = eval_case(&case, st);
            st.bump("calls");
            st.bump("deep_shape_calls");
            for f in fails {
                st.fail(&case, f);
            }
        }
        st.outcome(&("deep", i));
    });
    let stats = stats.merge(deep);
    if let Err(e) = require_nonzero(&stats, &["calls", "deep_shape_calls", "calls_that_removed", "serialisable_checked"]) {
        eprintln!("MACHINERY: {}", e);
        return 2;
    }
    let cov = json!({
        "rule": "every namespace layout of 1-3 elements (540 specs per element for 1-2 elements; chains and forks of 3 over a reduced menu; chains of 4 and the five-element shape root > r > [a > x, b] over a 12-spec menu), deduplicate_namespaces called on the document and on every element; distinct = distinct layouts",
        "layouts": tot,
    });
    ctx.finish(stats, cov, vec!["hash iteration order observed, not controlled".into()])
}

/// Why the first inexpressible name of `a` cannot be written: which declaration is left and what hides it.
fn why_inexpressible(a: &A) -> &'static str {
    // path of elements from the root to the element carrying the failing name
    fn rec<'a>(a: &'a A, outer: &Scope, path: &mut Vec<&'a A>, out: &mut Option<(Vec<&'a A>, String, bool)>) {
        if out.is_some() {
            return;
        }
        if a.k == K::Elem {
            path.push(a);
            let s = enter(outer, a);
            if !elem_expressible(&s, &a.ns) {
                *out = Some((path.clone(), a.ns.clone(), false));
            } else if let Some(at) = a.attrs.iter().find(|at| !attr_expressible(&s, &at.ns)) {
                *out = Some((path.clone(), at.ns.clone(), true));
            } else {
                for c in &a.ch {
                    rec(c, &s, path, out);
                }
            }
            path.pop();
        } else {
            for c in &a.ch {
                rec(c, outer, path, out);
            }
        }
    }
    let mut out = None;
    rec(a, &base_scope(), &mut vec![], &mut out);
    let Some((path, ns, is_attr)) = out else { return "expressible-by-the-model" };
    if ns.is_empty() {
        return "no-namespace-element-under-default";
    }
    // nearest remaining declaration of ns on the path
    let mut found: Option<(usize, String)> = None;
    for (i, e) in path.iter().enumerate().rev() {
        if let Some(d) = e.nss.iter().find(|d| d.ns == ns) {
            found = Some((i, d.name.clone()));
            break;
        }
    }
    let Some((i, q)) = found else { return "no-declaration-left" };
    if is_attr && q.is_empty() {
        return "attribute-left-with-the-default-declaration-only";
    }
    // who shadows q between i (exclusive) and the end (inclusive)?
    for (j, e) in path.iter().enumerate().skip(i + 1) {
        if e.nss.iter().any(|d| d.name == q) {
            return if j == path.len() - 1 { "remaining-prefix-shadowed-on-the-element-itself" } else { "remaining-prefix-shadowed-on-the-path" };
        }
    }
    if path[i].nss.iter().filter(|d| d.name == q).count() > 0 && i == path.len() - 1 {
        return "other";
    }
    "other"
}

fn second_removed_kind(first: &A, second: &A) -> &'static str {
    let (mut d1, mut d2) = (vec![], vec![]);
    decls_by_element(first, &mut d1);
    decls_by_element(second, &mut d2);
    for ((_, a), (_, b)) in d1.iter().zip(d2.iter()) {
        for d in a {
            if !b.contains(d) {
                return if d.1.is_empty() && d.2.is_empty() {
                    "default-undeclaration"
                } else if d.1.is_empty() {
                    "default-declaration"
                } else {
                    "prefixed-declaration"
                };
            }
        }
    }
    "nothing"
}
