pub mod c07;
pub mod c09;
pub mod c01;
pub mod c13;
pub mod c18;
pub mod c14;
pub mod c15;
pub mod c16;
