pub mod c07;
pub mod c09;
pub mod c01;
