pub mod c07;
pub mod c09;
pub mod c01;
pub mod c13;
pub mod c18;
