pub mod c07;
