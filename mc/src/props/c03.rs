//! C03 Parser is total, rejects ill-formed text, and accepts only sound trees.
//! E-STR (raw strings, token strings, bytes) + E-SPELL damage; reference recogniser = XmlRead.
use crate::atree::*;
use crate::common::*;
use crate::gen::*;
use crate::props::c01::{err_class, norm};
use crate::props::c02;
use crate::spell::render;
use crate::xmlread::*;
use serde::{Deserialize, Serialize};
use serde_json::json;
use xot::Xot;

#[derive(Serialize, Deserialize, Clone)]
pub enum Case {
    Text(String),
    Bytes(Vec<u8>),
}

const SIGMA: [&str; 18] = ["<", ">", "/", "a", ":", "=", "\"", "'", "&", ";", "#", "x", "!", "-", "[", "]", "?", " "];

const TOKENS: [&str; 39] = [
    "<a", "<p:a", "<q:a", ">", "/>", "</a>", "</b>", "</p:a>", "</q:a>", " k='1'", " k='2'", " p:k='1'", " q:k='1'", " xmlns:p='X'", " xmlns:q='X'", " xmlns:p='Y'", " xmlns='X'", " xml:id='i'", "t", "&amp;", "&#65;", "&#0;",
    "&#xD800;", "&#+65;", "&", "<!--c-->", "<!--c--->", "<?pi d?>", "<?pi+d?>", "<![CDATA[x]]>", "]]>", "<!DOCTYPE a>", "<!DOCTYPE a []>", "<!DOCTYPE a [<!ENTITY e \"v\">]>", "<?xml version='1.0'?>", "<?xml version='1.1'?>", "<b/>", "&#x+41;", "<![CDATA[]]>",
];

/// reasons of the reference recogniser that the statement lists as "must be rejected"
fn obligatory(reason: &str) -> bool {
    matches!(
        reason,
        "tag-mismatch" | "tag-unclosed" | "tag-stray" | "no-root" | "multi-root" | "toplevel-text" | "dup-attr" | "dup-prefix-decl" | "undeclared-prefix" | "raw-lt" | "raw-lt-in-content" | "raw-amp" | "bad-ref" | "ref-nonchar" | "comment-bad" | "pi-bad" | "cdata-bad"
            | "dtd" | "version" | "dup-xml-id"
    )
}

fn sound(xot: &Xot, node: xot::Node, is_doc: bool, text: &str, fails: &mut Vec<Fail>) {
    // structurally valid
    let a = read(xot, node);
    fn check(a: &A, fails: &mut Vec<Fail>, text: &str) {
        let mut seen = std::collections::BTreeSet::new();
        for at in &a.attrs {
            if !seen.insert((at.ns.clone(), at.name.clone())) {
                fails.push(Fail::new("accepted-unsound|duplicate-attribute", format!("{:?} -> {}", text, a.show())));
            }
        }
        let mut ps = std::collections::BTreeSet::new();
        for d in &a.nss {
            if !ps.insert(d.name.clone()) {
                fails.push(Fail::new("accepted-unsound|duplicate-prefix-declaration", format!("{:?} -> {}", text, a.show())));
            }
        }
        if a.ch.windows(2).any(|w| w[0].k == K::Text && w[1].k == K::Text) {
            fails.push(Fail::new("accepted-unsound|adjacent-text", format!("{:?} -> {}", text, a.show())));
        }
        if a.ch.iter().any(|c| c.k == K::Text && c.val.as_deref().unwrap_or("").is_empty()) {
            fails.push(Fail::new("accepted-unsound|empty-text", format!("{:?} -> {}", text, a.show())));
        }
        for c in &a.ch {
            check(c, fails, text);
        }
    }
    check(&a, fails, text);
    if is_doc {
        if let Err(e) = xot.validate_well_formed_document(node) {
            fails.push(Fail::new(format!("accepted-unsound|validate_well_formed_document|{}", err_class(&format!("{:?}", e))), format!("{:?}", text)));
        }
    }
    // serialisation is accepted again and reparses equal
    match catch(|| xot.to_string(node)) {
        Err(p) => fails.push(Fail::new(format!("panic|to_string-of-accepted|{}", panic_class(&p)), format!("{:?}", text))),
        Ok(Err(e)) => fails.push(Fail::new(format!("accepted-unsound|to_string-err|{}", err_class(&format!("{:?}", e))), format!("{:?} -> {} : {:?}", text, a.show(), e))),
        Ok(Ok(out)) => {
            let mut x2 = Xot::new();
            let r = if is_doc { x2.parse(&out) } else { x2.parse_fragment(&out) };
            match r {
                Err(e) => fails.push(Fail::new(
                    format!("accepted-unsound|reserialisation-rejected|{}", err_class(&format!("{:?}", e))),
                    format!("{:?} accepted as {}, serialised as {:?}, rejected: {:?}", text, a.show(), out, e),
                )),
                Ok(n2) => {
                    // "reparses deep-equal": deep equality does not look at declarations (the serialiser may drop a
                    // redundant xmlns:xml="http://www.w3.org/XML/1998/namespace"); that declarations survive is C01's
                    let b = read(&x2, n2);
                    if let Some(d) = diff_class(&norm(&a.without_decls()), &norm(&b.without_decls())) {
                        fails.push(Fail::new(format!("accepted-unsound|reserialisation-differs|{}", d), format!("{:?} accepted as {}, serialised as {:?}, reparsed as {}", text, a.show(), out, b.show())));
                    }
                }
            }
        }
    }
}

pub fn eval_text(text: &str, st: &mut Stats) -> Vec<Fail> {
    let mut fails = vec![];
    for is_doc in [true, false] {
        let reference = if is_doc { read_document(text) } else { read_fragment(text) };
        let which = if is_doc { "parse" } else { "parse_fragment" };
        let mut xot = Xot::new();
        st.evals += 1;
        let r = catch(|| if is_doc { xot.parse(text) } else { xot.parse_fragment(text) });
        match r {
            Err(p) => {
                fails.push(Fail::new(format!("panic|{}|{}", which, panic_class(&p)), format!("{:?}: {}", text, p)));
                continue;
            }
            Ok(Err(e)) => {
                st.bump("rejected");
                st.outcome(&(is_doc, crate::props::c01::err_class(&format!("{:?}", e))));
                if let Read::WellFormed(_) = reference {
                    st.bump("rejected_although_reference_accepts");
                }
            }
            Ok(Ok(node)) => {
                st.bump("accepted");
                st.outcome(&(is_doc, read(&xot, node).canon()));
                match &reference {
                    Read::IllFormed(reason) if obligatory(reason) => {
                        fails.push(Fail::new(format!("accepted-ill-formed|{}|{}", which, reason), format!("{:?} is ill-formed ({}) but {} accepts it as {}", text, reason, which, read(&xot, node).show())));
                    }
                    Read::IllFormed(_) => st.bump("accepted_non_obligatory"),
                    Read::WellFormed(exp) => {
                        let mut got = read(&xot, node);
                        let mut exp = exp.clone();
                        if !is_doc {
                            // nothing to strip
                        } else {
                            got.ch.retain(|c| c.k != K::Text);
                            exp.ch.retain(|c| c.k != K::Text);
                        }
                        if let Some(d) = diff_class(&norm(&exp), &norm(&got)) {
                            fails.push(Fail::new(format!("accepted-tree-differs-from-reference|{}|{}", which, d), format!("{:?}: reference reader {} vs {}", text, exp.show(), got.show())));
                        }
                        st.bump("accepted_and_compared");
                    }
                    Read::Unknown(_) => st.bump("accepted_reference_unknown"),
                }
                sound(&xot, node, is_doc, text, &mut fails);
            }
        }
    }
    // bytes entry point with the same text must agree with parse on accept / reject (UTF-8)
    let mut xot = Xot::new();
    st.evals += 1;
    match catch(|| xot.parse_bytes(text.as_bytes()).is_ok()) {
        Err(p) => fails.push(Fail::new(format!("panic|parse_bytes|{}", panic_class(&p)), format!("{:?}", text))),
        Ok(ok) => {
            let mut x2 = Xot::new();
            if let Ok(ok2) = catch(|| x2.parse(text).is_ok()) {
                if ok != ok2 && text.is_ascii() {
                    fails.push(Fail::new("parse_bytes-disagrees-with-parse", format!("{:?}: parse_bytes ok={} parse ok={}", text, ok, ok2)));
                }
            }
        }
    }
    fails
}

pub fn eval_bytes(bytes: &[u8], st: &mut Stats) -> Vec<Fail> {
    let mut fails = vec![];
    let mut xot = Xot::new();
    st.evals += 1;
    match catch(|| xot.parse_bytes(bytes).map(|n| n)) {
        Err(p) => fails.push(Fail::new(format!("panic|parse_bytes|{}", panic_class(&p)), format!("{:?}: {}", bytes, p))),
        Ok(Err(_)) => st.bump("rejected"),
        Ok(Ok(node)) => {
            st.bump("accepted");
            // one byte order mark is part of the encoding; a second U+FEFF is a character in front of the root
            for bom in [&[0xEFu8, 0xBB, 0xBF][..], &[0xFF, 0xFE][..], &[0xFE, 0xFF][..]] {
                if bytes.len() >= 2 * bom.len() && bytes.starts_with(bom) && bytes[bom.len()..].starts_with(bom) {
                    fails.push(Fail::new("accepted-ill-formed|parse_bytes|toplevel-text", format!("{:?}: a second byte order mark (U+FEFF before the root) is accepted", bytes)));
                }
            }
            sound(&xot, node, true, &format!("{:?}", bytes), &mut fails);
        }
    }
    fails
}

pub fn eval(case: &Case) -> Vec<Fail> {
    let mut st = Stats::default();
    match case {
        Case::Text(t) => eval_text(t, &mut st),
        Case::Bytes(b) => eval_bytes(b, &mut st),
    }
}

fn damaged_texts(tier: Tier) -> Vec<String> {
    let docs = c02::documents(Tier::Quick);
    let mut out: Vec<String> = vec![];
    let mut push = |s: String| out.push(s);
    for doc in &docs {
        let base = render(doc, &[]);
        let mut texts = vec![base.text.clone()];
        // spellings that differ in one prefix choice (prefixed start and end tags, synonymous prefixes)
        if tier == Tier::Quick {
            for (i, m) in base.points.iter().enumerate().skip(1) {
                if base.labels[i] == "prefix-choice" {
                    for a in 1..*m as usize {
                        texts.push(render(doc, &[(i, a)]).text);
                    }
                }
            }
        }
        // one-deviation spellings (text entry points only)
        if tier == Tier::Thorough {
            for (i, m) in base.points.iter().enumerate().skip(1) {
                for a in 1..*m as usize {
                    texts.push(render(doc, &[(i, a)]).text);
                }
            }
        }
        for t in &texts {
            let chars: Vec<char> = t.chars().collect();
            for i in 0..chars.len() {
                // delete, duplicate, replace by markup characters
                let mut d = chars.clone();
                d.remove(i);
                push(d.iter().collect());
                let mut d = chars.clone();
                d.insert(i, chars[i]);
                push(d.iter().collect());
                for r in ['<', '&', '>', '"', '/', ';'] {
                    let mut d = chars.clone();
                    d[i] = r;
                    push(d.iter().collect());
                    let mut d = chars.clone();
                    d.insert(i, r);
                    push(d.iter().collect());
                }
            }
            for cut in 1..chars.len() {
                push(chars[..cut].iter().collect());
            }
            // structural edits
            push(format!("{}{}", t, "<z/>"));
            push(format!("{}{}", t, "x"));
            push(format!("x{}", t));
            push(format!("<!DOCTYPE a>{}", t));
            push(t.replace("</", "</x"));
            push(t.replace("</p:", "</q:"));
            push(t.replace("<?pi ", "<?pi+"));
            push(t.replace("xmlns:p=", "xmlns:p='urn:dup' xmlns:p="));
            push(t.replace(" k=", " k='0' k="));
            push(t.replace("p:k=", "q:k='0' xmlns:q=\"urn:x\" p:k="));
            push(t.replace("xml:id=\"a b\"", "xml:id=\"a b\" id='1'").replace("<a ", "<a><b xml:id='a b'/></a><a "));
            // duplicate an attribute under every other in-scope prefix bound to the same namespace,
            // at every attribute occurrence (the synonym may be declared on an ancestor)
            {
                let mut decls: Vec<(String, String)> = vec![];
                let mut rest = t.as_str();
                while let Some(i) = rest.find("xmlns:") {
                    let after = &rest[i + 6..];
                    if let Some(eq) = after.find('=') {
                        let prefix = after[..eq].trim().to_string();
                        let v = after[eq + 1..].trim_start();
                        if let Some(q) = v.chars().next() {
                            if let Some(end) = v[1..].find(q) {
                                decls.push((prefix, v[1..1 + end].to_string()));
                            }
                        }
                    }
                    rest = &rest[i + 6..];
                }
                for (p1, u1) in &decls {
                    for (p2, u2) in &decls {
                        if p1 != p2 && u1 == u2 {
                            let needle = format!(" {}:", p1);
                            let mut from = 0;
                            while let Some(i) = t[from..].find(&needle) {
                                let at = from + i;
                                // the attribute name runs up to '='
                                if let Some(eq) = t[at + needle.len()..].find('=') {
                                    let name = &t[at + needle.len()..at + needle.len() + eq];
                                    if !name.is_empty() && name.chars().all(|c| c.is_alphanumeric()) && !t[..at].ends_with("xmlns") {
                                        let mut d = String::new();
                                        d.push_str(&t[..at]);
                                        d.push_str(&format!(" {}:{}='dup'", p2, name));
                                        d.push_str(&t[at..]);
                                        push(d);
                                    }
                                }
                                from = at + needle.len();
                            }
                        }
                    }
                }
            }
            // two xml:id values that are equal only after normalisation (padding on either one)
            {
                let mut occ: Vec<(usize, usize)> = vec![];
                let mut from = 0;
                while let Some(i) = t[from..].find("xml:id=") {
                    let at = from + i + 7;
                    if let Some(q) = t[at..].chars().next() {
                        if q == '"' || q == '\'' {
                            if let Some(e) = t[at + 1..].find(q) {
                                occ.push((at + 1, at + 1 + e));
                            }
                        }
                    }
                    from = at;
                }
                for (i, a) in occ.iter().enumerate() {
                    for (j, b) in occ.iter().enumerate() {
                        if i != j {
                            // occurrence j gets a padded copy of the value of occurrence i
                            let va = &t[a.0..a.1];
                            for padded in [format!(" {}  ", va), va.replace(' ', "   "), va.to_string()] {
                                let mut d = String::new();
                                d.push_str(&t[..b.0]);
                                d.push_str(&padded);
                                d.push_str(&t[b.1..]);
                                push(d);
                            }
                        }
                    }
                }
            }
            // use every declared prefix in an element inserted after every tag: inside the scope of the
            // declaration this is fine, outside it is an undeclared prefix
            {
                let mut prefixes: Vec<String> = vec![];
                let mut rest = t.as_str();
                while let Some(i) = rest.find("xmlns:") {
                    let after = &rest[i + 6..];
                    if let Some(eq) = after.find('=') {
                        let p = after[..eq].trim().to_string();
                        if !p.is_empty() && !prefixes.contains(&p) {
                            prefixes.push(p);
                        }
                    }
                    rest = &rest[i + 6..];
                }
                for p in &prefixes {
                    for (i, ch) in t.char_indices() {
                        if ch == '>' && !t[..i].ends_with('?') && !t[..i].ends_with("--") {
                            let mut d = String::new();
                            d.push_str(&t[..=i]);
                            d.push_str(&format!("<{}:zz/>", p));
                            d.push_str(&t[i + 1..]);
                            push(d);
                            let mut d = String::new();
                            d.push_str(&t[..=i]);
                            d.push_str(&format!("<zz {}:w='1'/>", p));
                            d.push_str(&t[i + 1..]);
                            push(d);
                        }
                    }
                }
            }
            // every end tag rewritten with another way of writing a name (other prefix, no prefix): the end tag
            // must repeat the start tag's name as written, so each of these is a tag mismatch
            {
                let mut from = 0;
                while let Some(i) = t[from..].find("</") {
                    let at = from + i + 2;
                    let end = t[at..].find(|c: char| c == '>' || c.is_whitespace()).map(|e| at + e).unwrap_or(t.len());
                    let q = &t[at..end];
                    let local = q.rsplit(':').next().unwrap_or(q);
                    let mut variants = vec![local.to_string()];
                    for px in ["p", "q"] {
                        variants.push(format!("{}:{}", px, local));
                    }
                    for v in variants {
                        if v != q {
                            let mut d = String::new();
                            d.push_str(&t[..at]);
                            d.push_str(&v);
                            d.push_str(&t[end..]);
                            push(d);
                        }
                    }
                    from = end;
                }
            }
            push(t.replace("&amp;", "&#0;"));
            push(t.replace("&lt;", "&bogus;"));
            push(t.replace("version=\"1.0\"", "version=\"1.1\""));
        }
    }
    out.sort();
    out.dedup();
    out
}

fn byte_cases(tier: Tier) -> Vec<Vec<u8>> {
    let mut out = vec![];
    let boms: Vec<Vec<u8>> = vec![vec![], vec![0xEF, 0xBB, 0xBF], vec![0xFF, 0xFE], vec![0xFE, 0xFF], vec![0xFF, 0xFE, 0, 0], vec![0, 0, 0xFE, 0xFF], vec![0x2B, 0x2F, 0x76], vec![0xF7, 0x64, 0x4C]];
    let labels = [
        "UTF-8", "utf-8", "UTF8", "UTF-16", "UTF-16LE", "UTF-16BE", "ISO-8859-1", "iso-8859-1", "latin1", "ISO-8859-2", "ISO-8859-15", "windows-1252", "windows-1251", "US-ASCII", "ascii", "Shift_JIS", "EUC-JP", "GBK", "gb18030", "Big5", "KOI8-R",
        "x-user-defined", "UCS-4", "UTF-32", "UTF-7", "EBCDIC", "cp437", "bogus", "", " ", "utf-8 ", "UTF-8\u{0}", "ISO-10646-UCS-2", "macintosh", "IBM866", "replacement", "x-mac-cyrillic", "ISO-2022-JP", "HZ-GB-2312", "unicode",
    ];
    let bodies = ["<a/>", "<a>\u{e9}</a>", "<a k='v'>t</a>"];
    for bom in &boms {
        for l in labels {
            for b in bodies {
                let mut v = bom.clone();
                v.extend_from_slice(format!("<?xml version=\"1.0\" encoding=\"{}\"?>{}", l, b).as_bytes());
                out.push(v);
                // the same text as UTF-16 after a UTF-16 BOM
                if bom == &vec![0xFF, 0xFE] || bom == &vec![0xFE, 0xFF] {
                    let mut v = bom.clone();
                    for u in format!("<?xml version=\"1.0\" encoding=\"{}\"?>{}", l, b).encode_utf16() {
                        if bom[0] == 0xFF {
                            v.extend_from_slice(&u.to_le_bytes());
                        } else {
                            v.extend_from_slice(&u.to_be_bytes());
                        }
                    }
                    out.push(v);
                }
            }
        }
        for b in bodies {
            let mut v = bom.clone();
            v.extend_from_slice(b.as_bytes());
            out.push(v);
        }
    }
    // a doubled byte order mark, with and without a declaration
    for bom in [vec![0xEFu8, 0xBB, 0xBF], vec![0xFF, 0xFE], vec![0xFE, 0xFF]] {
        for text in ["<a/>", "<?xml version=\"1.0\"?><a/>"] {
            let mut v = bom.clone();
            v.extend_from_slice(&bom);
            if bom.len() == 3 {
                v.extend_from_slice(text.as_bytes());
            } else {
                for u in text.encode_utf16() {
                    if bom[0] == 0xFF {
                        v.extend_from_slice(&u.to_le_bytes());
                    } else {
                        v.extend_from_slice(&u.to_be_bytes());
                    }
                }
            }
            out.push(v);
        }
    }
    let _ = tier;
    out
}

pub fn run(tier: Tier) -> i32 {
    let ctx = Ctx::new("C03", tier, "exploration");
    // (a) raw strings
    let l = tier.pick(5, 6);
    let n = strings_count(SIGMA.len() as u64, l);
    let mut stats = par_range(&ctx, n, |i, st| {
        let t = nth_str(&SIGMA, l, i);
        let fails = eval_text(&t, st);
        st.bump("raw_strings");
        if i % 400_009 == 77 {
            st.sample(|| json!({"raw": t}));
        }
        for f in fails {
            st.fail(&Case::Text(t.clone()), f);
        }
    });
    // (b) token strings
    let tl = tier.pick(4, 5);
    let tn = strings_count(TOKENS.len() as u64, tl);
    stats = stats.merge(par_range(&ctx, tn, |i, st| {
        let t = nth_str(&TOKENS, tl, i);
        let fails = eval_text(&t, st);
        st.bump("token_strings");
        if i % 300_007 == 5 {
            st.sample(|| json!({"tokens": t}));
        }
        for f in fails {
            st.fail(&Case::Text(t.clone()), f);
        }
    }));
    // (c) damage
    let dmg = damaged_texts(tier);
    stats = stats.merge(par_slice(&ctx, &dmg, |t, st| {
        let fails = eval_text(t, st);
        st.bump("damaged_texts");
        for f in fails {
            st.fail(&Case::Text(t.clone()), f);
        }
    }));
    // (d) bytes
    let bl = tier.pick(2, 3);
    let bn: u64 = (0..=bl).map(|k| 256u64.pow(k)).sum();
    stats = stats.merge(par_range(&ctx, bn, |i, st| {
        let mut v = vec![];
        let mut i = i;
        let mut len = 0u32;
        loop {
            let c = 256u64.pow(len);
            if i < c {
                break;
            }
            i -= c;
            len += 1;
        }
        for _ in 0..len {
            v.push((i % 256) as u8);
            i /= 256;
        }
        let fails = eval_bytes(&v, st);
        st.bump("byte_strings");
        for f in fails {
            st.fail(&Case::Bytes(v.clone()), f);
        }
    }));
    let bc = byte_cases(tier);
    stats = stats.merge(par_slice(&ctx, &bc, |b, st| {
        let fails = eval_bytes(b, st);
        st.bump("encoding_cases");
        for f in fails {
            st.fail(&Case::Bytes(b.clone()), f);
        }
    }));
    // (e) character references: every code point 0 ..= 0x110000 as a hexadecimal reference in text, and the code
    //     points around every boundary of the XML Char production in decimal / hexadecimal, in text and in an
    //     attribute value: accepted exactly when the code point is an XML Char
    stats = stats.merge(par_range(&ctx, 0x110001 / 256 + 1, |blk, st| {
        for cp in (blk * 256)..((blk + 1) * 256).min(0x110001) {
            let t = format!("<a>&#x{:X};</a>", cp);
            let fails = eval_text(&t, st);
            st.bump("reference_cases");
            for f in fails {
                st.fail(&Case::Text(t.clone()), f);
            }
        }
    }));
    {
        let mut edge: Vec<u32> = vec![];
        for b in [0u32, 0x9, 0xA, 0xD, 0x20, 0x7F, 0x85, 0xD7FF, 0xD800, 0xDFFF, 0xE000, 0xFFFD, 0xFFFE, 0xFFFF, 0x10000, 0x10FFFF, 0x110000, 0xFFFFFFFF] {
            for d in [-2i64, -1, 0, 1, 2] {
                let v = b as i64 + d;
                if (0..=0xFFFF_FFFFi64).contains(&v) {
                    edge.push(v as u32);
                }
            }
        }
        edge.sort();
        edge.dedup();
        let mut texts = vec![];
        for cp in &edge {
            for r in [format!("&#{};", cp), format!("&#x{:x};", cp), format!("&#x{:X};", cp), format!("&#x0{:X};", cp), format!("&#00{};", cp)] {
                texts.push(format!("<a>{}</a>", r));
                texts.push(format!("<a k=\"{}\"/>", r));
                texts.push(format!("<a xmlns:p=\"u{}\"/>", r));
                texts.push(format!("<a>x{}y<b k='{}'/></a>", r, r));
            }
        }
        // far beyond u32
        texts.push("<a>&#99999999999999999999;</a>".into());
        texts.push("<a>&#xFFFFFFFFFFFFFFFFF;</a>".into());
        stats = stats.merge(par_slice(&ctx, &texts, |t, st| {
            let fails = eval_text(t, st);
            st.bump("reference_cases");
            for f in fails {
                st.fail(&Case::Text(t.clone()), f);
            }
        }));
    }
    // (f) reserved names: every sequence of <= 4 fragments from a menu built around the xml / xmlns prefixes, the XML
    //     namespace, prefix undeclaring and processing instructions called xml. Whatever is accepted must still be a
    //     sound tree (serialises, is accepted again, reparses equal).
    {
        const XMLNS: &str = "http://www.w3.org/XML/1998/namespace";
        let menu: Vec<String> = vec![
            "<a".into(), "<p:a".into(), "<xml:a".into(), ">".into(), "/>".into(), "</a>".into(), "</p:a>".into(), "</xml:a>".into(),
            " xmlns:p=''".into(), " xmlns:p='X'".into(), " xmlns:xml='X'".into(), format!(" xmlns:xml='{}'", XMLNS), " xmlns:xmlns='X'".into(),
            format!(" xmlns:p='{}'", XMLNS), format!(" xmlns='{}'", XMLNS), " xmlns:p='http://www.w3.org/2000/xmlns/'".into(),
            " p:k='1'".into(), " p:xmlns='v'".into(), " xml:k='1'".into(), " xmlns:k='1'".into(), "<?xml d?>".into(), "<?XML d?>".into(), "<?xml?>".into(), "<?xml\td?>".into(), "<?xml-x d?>".into(), "t".into(),
        ];
        let refs: Vec<&str> = menu.iter().map(|s| s.as_str()).collect();
        let fl = tier.pick(4, 5);
        let fnn = strings_count(refs.len() as u64, fl);
        stats = stats.merge(par_range(&ctx, fnn, |i, st| {
            let t = nth_str(&refs, fl, i);
            let fails = eval_text(&t, st);
            st.bump("reserved_name_strings");
            for f in fails {
                st.fail(&Case::Text(t.clone()), f);
            }
        }));
    }
    // (g) names that begin with a colon (":a" is a Name but no QName; a tokenizer that reports it as prefix "" + local
    //     "a" makes <a></:a> and <:a></a> look like matching tags): every sequence of <= 5 (6) fragments
    {
        let menu: Vec<&str> = vec!["<a", "<:a", "<p:a xmlns:p='X'", ">", "/>", "</a>", "</:a>", "</p:a>", " :b='1'", " b='1'", " :xmlns='X'", "t"];
        let gl = tier.pick(5, 6);
        let gn = strings_count(menu.len() as u64, gl);
        stats = stats.merge(par_range(&ctx, gn, |i, st| {
            let t = nth_str(&menu, gl, i);
            let fails = eval_text(&t, st);
            st.bump("colon_name_strings");
            for f in fails {
                st.fail(&Case::Text(t.clone()), f);
            }
        }));
    }
    if let Err(e) = require_nonzero(&stats, &["raw_strings", "token_strings", "damaged_texts", "byte_strings", "encoding_cases", "reference_cases", "reserved_name_strings", "colon_name_strings", "accepted", "rejected", "accepted_and_compared"]) {
        eprintln!("MACHINERY: {}", e);
        return 2;
    }
    let total = n + tn + dmg.len() as u64 + bn + bc.len() as u64;
    let samples = stats.samples.clone();
    let cov = json!({
        "evaluations": stats.evals,
        "distinct_nontrivial": total,
        "samples": samples,
        "rule": format!("(a) every string of length <= {} over 18 markup symbols; (b) every sequence of <= {} fragments from a 39-item token menu (tags with synonymous prefixes, duplicate attributes / declarations, references incl. &#0; &#xD800; &#+65;, comments, PIs, CDATA, ]]>, DOCTYPEs, XML declarations 1.0 / 1.1); (c) every single-character deletion / duplication / replacement / insertion / truncation and 13 structural edits (incl. every end tag rewritten under another prefix / without prefix) of the default spellings of the C02 documents and of their spellings with one other prefix choice (thorough: of all their one-deviation spellings); (d) every byte string of length <= {} and 8 BOMs x 40 encoding labels x 3 bodies; (f) every sequence of <= {} fragments from a 26-item menu around the reserved names (xml / xmlns prefixes, the XML and xmlns namespaces, xmlns:p='', processing instructions called xml); (g) every sequence of <= {} fragments from a 12-item menu around names that begin with a colon; (e) every code point 0..=0x110000 as a hexadecimal character reference in text, and decimal / hexadecimal / zero-padded references to the code points within 2 of every boundary of the XML Char production in text, attribute values and namespace URIs; each to parse and parse_fragment (text) / parse_bytes; oracle: no panic; texts the reference recogniser XmlRead classifies ill-formed for a reason in the property's catalogue are rejected; whatever is accepted equals the reference reader's tree (when it has one), passes validate_well_formed_document, has unique attributes / declarations, serialises, and reparses equal; distinct = distinct (entry point, resulting tree or error variant)", l, tl, bl, tier.pick(4, 5), tier.pick(5, 6)),
    });
    ctx.finish(stats, cov, vec!["XmlRead answers Unknown for anything it does not positively classify; only IllFormed(reason in catalogue) creates an obligation".into(), "a process abort (stack overflow, allocation failure) would surface as a machinery error of the driver, never as a pass".into()])
}
