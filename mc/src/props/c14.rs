//! C14 Serialisation options change the spelling, never the content.
use crate::atree::*;
use crate::common::*;
use crate::gen::*;
use crate::props::c01::{err_class, norm};
use serde::{Deserialize, Serialize};
use serde_json::json;
use xot::output::xml::{Declaration, Parameters};
use xot::output::Indentation;
use xot::Xot;

#[derive(Serialize, Deserialize, Clone, Debug)]
pub struct Cfg {
    /// bit 0: a, bit 1: b are CDATA-section elements
    pub cdata: u32,
    pub unescaped_gt: bool,
    /// 0 none, 1 bare, 2 encoding, 3 standalone yes, 4 standalone no, 5 encoding + standalone
    pub declaration: u32,
    /// None = no indentation; Some(mask) = indentation with a suppress list: bits 0-2 say whether a, b, c are on it,
    /// bits 4-6 give the order of the list (index of the permutation of the members taken in the order a, b, c)
    pub indent: Option<u32>,
    /// serialise the document node (false: the top element as an element-rooted subtree)
    pub from_document: bool,
    /// serialise the first element child of the top element in place instead (its ancestors' xml:space is in force)
    #[serde(default)]
    pub inner: bool,
}

#[derive(Serialize, Deserialize, Clone)]
pub struct Case {
    /// document with one element
    pub tree: A,
    pub cfg: Cfg,
}

fn params(xot: &mut Xot, cfg: &Cfg) -> Parameters {
    let a = xot.add_name("a");
    let b = xot.add_name("b");
    let c = xot.add_name("c");
    let names = |mask: u32| {
        let mut v = vec![];
        if mask & 1 != 0 {
            v.push(a);
        }
        if mask & 2 != 0 {
            v.push(b);
        }
        if mask & 4 != 0 {
            v.push(c);
        }
        // the list order is the caller's business: take the (mask >> 4)-th permutation
        let mut k = (mask >> 4) as usize;
        let mut out = vec![];
        while !v.is_empty() {
            let n = v.len();
            out.push(v.remove(k % n));
            k /= n;
        }
        out
    };
    Parameters {
        indentation: cfg.indent.map(|m| Indentation { suppress: names(m) }),
        cdata_section_elements: names(cfg.cdata),
        declaration: match cfg.declaration {
            0 => None,
            1 => Some(Declaration { encoding: None, standalone: None }),
            2 => Some(Declaration { encoding: Some("UTF-8".into()), standalone: None }),
            3 => Some(Declaration { encoding: None, standalone: Some(true) }),
            4 => Some(Declaration { encoding: None, standalone: Some(false) }),
            _ => Some(Declaration { encoding: Some("UTF-8".into()), standalone: Some(true) }),
        },
        doctype: None,
        unescaped_gt: cfg.unescaped_gt,
    }
}

fn xml_ws(s: &str) -> bool {
    !s.is_empty() && s.chars().all(|c| matches!(c, ' ' | '\t' | '\r' | '\n'))
}

struct Ctxt {
    /// an ancestor-or-self has text children, or is on the suppress list
    no_indent: bool,
    preserve: bool,
}

/// aligned walk: `got` may differ from `exp` only by added whitespace-only text nodes in allowed places
fn aligned(exp: &A, got: &A, cx: &Ctxt, suppress: u32) -> Result<(), String> {
    // node itself
    let mut e0 = exp.clone();
    e0.ch.clear();
    let mut g0 = got.clone();
    g0.ch.clear();
    if let Some(d) = diff_class(&norm(&e0), &norm(&g0)) {
        return Err(format!("content-changed:{}", d));
    }
    let mut no_indent = cx.no_indent;
    let mut preserve = cx.preserve;
    if exp.k == K::Elem {
        if exp.ch.iter().any(|c| c.k == K::Text) {
            no_indent = true;
        }
        if (exp.name == "a" && suppress & 1 != 0) || (exp.name == "b" && suppress & 2 != 0) || (exp.name == "c" && suppress & 4 != 0) {
            no_indent = true;
        }
        if let Some(sp) = exp.attrs.iter().find(|x| x.ns == XML_NS && x.name == "space") {
            preserve = sp.val.as_deref() == Some("preserve");
        }
    }
    let inner = Ctxt { no_indent, preserve };
    let mut i = 0;
    for g in &got.ch {
        let e = exp.ch.get(i);
        let is_added = g.k == K::Text && xml_ws(g.val.as_deref().unwrap_or("")) && e.map(|e| e.k != K::Text).unwrap_or(true);
        if is_added {
            if exp.k == K::Doc {
                return Err("whitespace-text-at-document-level".into());
            }
            if no_indent && preserve {
                return Err("added-whitespace:mixed-or-suppressed+preserve".into());
            }
            if preserve {
                return Err("added-whitespace:inside-xml-space-preserve".into());
            }
            if no_indent {
                let mixed_here = exp.ch.iter().any(|c| c.k == K::Text);
                return Err(if mixed_here { "added-whitespace:mixed-content".into() } else { "added-whitespace:below-mixed-or-suppressed".into() });
            }
            continue;
        }
        match e {
            None => return Err(format!("content-changed:extra-{}", g.k.name())),
            Some(e) => {
                aligned(e, g, &inner, suppress)?;
                i += 1;
            }
        }
    }
    if i != exp.ch.len() {
        return Err(format!("content-changed:missing-{}", exp.ch[i].k.name()));
    }
    Ok(())
}

pub fn eval(case: &Case) -> Vec<Fail> {
    let mut st = Stats::default();
    eval_case(case, &mut st)
}

pub fn eval_case(case: &Case, st: &mut Stats) -> Vec<Fail> {
    let mut fails = vec![];
    let mut xot = Xot::new();
    let doc = build1(&mut xot, &case.tree);
    let p = params(&mut xot, &case.cfg);
    let top_a = case.tree.ch.iter().find(|c| c.k == K::Elem).unwrap();
    let mut outer_preserve = false;
    let (node, expected) = if case.cfg.inner {
        let Some(pos) = top_a.ch.iter().position(|c| c.k == K::Elem) else { return fails };
        let top = xot.document_element(doc).unwrap();
        let n = xot.children(top).nth(pos).unwrap();
        outer_preserve = top_a.attrs.iter().find(|x| x.ns == XML_NS && x.name == "space").map(|x| x.val.as_deref() == Some("preserve")).unwrap_or(false);
        (n, A::doc(vec![top_a.ch[pos].clone()]))
    } else if case.cfg.from_document {
        (doc, case.tree.clone())
    } else {
        (xot.document_element(doc).unwrap(), A::doc(vec![top_a.clone()]))
    };
    st.evals += 1;
    let cfgs = format!("cdata={} gt={} decl={} indent={:?} doc={} inner={}", case.cfg.cdata, case.cfg.unescaped_gt, case.cfg.declaration, case.cfg.indent, case.cfg.from_document, case.cfg.inner);
    let mode = if case.cfg.indent.is_some() { "indent" } else { "plain" };
    let text = match catch(|| xot.serialize_xml_string(p, node)) {
        Err(pn) => {
            fails.push(Fail::new(format!("panic|serialize|{}", panic_class(&pn)), format!("{} [{}]: {}", case.tree.show(), cfgs, pn)));
            return fails;
        }
        Ok(Err(e)) => {
            fails.push(Fail::new(format!("serialize-err|{}|{}", mode, err_class(&format!("{:?}", e))), format!("{} [{}]: {:?}", case.tree.show(), cfgs, e)));
            return fails;
        }
        Ok(Ok(t)) => t,
    };
    let reparsed = match catch(|| xot.parse(&text)) {
        Err(pn) => {
            fails.push(Fail::new(format!("panic|parse|{}", panic_class(&pn)), format!("{:?}", text)));
            return fails;
        }
        Ok(Err(e)) => {
            fails.push(Fail::new(
                format!("reparse-err|{}|{}|{}", mode, err_class(&format!("{:?}", e)), text_feature(&case.tree, &case.cfg)),
                format!("{} [{}] -> {:?} rejected: {:?}", case.tree.show(), cfgs, text, e),
            ));
            return fails;
        }
        Ok(Ok(n)) => n,
    };
    let got = read(&xot, reparsed);
    match case.cfg.indent {
        None => {
            if let Some(d) = diff_class(&norm(&expected), &norm(&got)) {
                fails.push(Fail::new(
                    format!("reparse-differs|plain|{}|{}", d, text_feature(&case.tree, &case.cfg)),
                    format!("{} [{}] -> {:?} reparsed as {}", case.tree.show(), cfgs, text, got.show()),
                ));
            }
        }
        Some(mask) => {
            let r = aligned(&expected, &got, &Ctxt { no_indent: false, preserve: outer_preserve }, mask);
            if let Err(cls) = r {
                fails.push(Fail::new(format!("indent|{}", cls), format!("{} [{}] -> {:?} reparsed as {}", case.tree.show(), cfgs, text, got.show())));
            } else if got.size() > expected.size() {
                st.bump("indentation_added");
            }
        }
    }
    if text.contains("<![CDATA[") {
        st.bump("cdata_sections_written");
    }
    fails
}

/// which mechanism a text-related failure goes through: inside a CDATA-section element or not
fn text_feature(tree: &A, cfg: &Cfg) -> &'static str {
    fn any_text_in(a: &A, cdata: u32) -> bool {
        let here = a.k == K::Elem && ((a.name == "a" && cdata & 1 != 0) || (a.name == "b" && cdata & 2 != 0)) && a.ch.iter().any(|c| c.k == K::Text);
        here || a.ch.iter().any(|c| any_text_in(c, cdata))
    }
    if any_text_in(tree, cfg.cdata) {
        "text-in-cdata-section-element"
    } else {
        "text-escaped"
    }
}

const SIGMA: [&str; 4] = ["]", ">", "x", "\r"];

fn text_sweep_total(l: u32) -> u64 {
    strings_count(4, l) * 4 * 2 * 6
}
fn text_sweep_case(l: u32, i: u64) -> Option<Case> {
    let d = mixed(&[strings_count(4, l) as usize, 4, 2, 6], i);
    let s = nth_str(&SIGMA, l, d[0] as u64);
    if s.is_empty() {
        return None;
    }
    let tree = A::doc(vec![A::el("", "a").child(A::el("", "b").child(A::text(&s))).child(A::text(&s))]);
    Some(Case { tree, cfg: Cfg { cdata: d[1] as u32, unescaped_gt: d[2] == 1, declaration: d[3] as u32, indent: None, from_document: true, inner: false } })
}

const SPACE: [Option<&str>; 4] = [None, Some("preserve"), Some("default"), Some("other")];
fn extra(i: usize) -> Option<A> {
    match i {
        1 => Some(A::el("", "c")),
        2 => Some(A::text("t")),
        3 => Some(A::comment("c")),
        4 => Some(A::text(" ")),
        _ => None,
    }
}

/// level element: name alternates a / b; xml:space; one optional extra before and after the nested child
fn level(name: &str, space: usize, before: usize, after: usize, inner: Option<A>) -> A {
    let mut e = A::el("", name);
    if let Some(s) = SPACE[space] {
        e = e.attr(XML_NS, "space", s);
    }
    if let Some(x) = extra(before) {
        e.ch.push(x);
    }
    if let Some(x) = inner {
        // avoid adjacent text: extras are single "t" texts, inner is an element
        e.ch.push(x);
    }
    if let Some(x) = extra(after) {
        if !(x.k == K::Text && e.ch.last().map(|l| l.k == K::Text).unwrap_or(false)) {
            e.ch.push(x);
        }
    }
    e
}

fn indent_sweep_total(tier: Tier) -> u64 {
    let depth = tier.pick(3, 4);
    let per = 4 * 4 * 4u64;
    (1..=depth).map(|d| per.pow(d)).sum::<u64>() * 4 * 2
}
fn indent_sweep_case(tier: Tier, mut i: u64) -> Case {
    let cfgi = i % 8;
    i /= 8;
    let per = 64u64;
    let mut depth = 1u32;
    loop {
        let c = per.pow(depth);
        if i < c {
            break;
        }
        i -= c;
        depth += 1;
    }
    let _ = tier;
    let mut inner: Option<A> = None;
    let names = ["a", "b", "a", "b"];
    for lv in (0..depth as usize).rev() {
        let d = i % per;
        i /= per;
        inner = Some(level(names[lv], (d / 16) as usize, ((d / 4) % 4) as usize, (d % 4) as usize, inner));
    }
    Case { tree: A::doc(vec![inner.unwrap()]), cfg: Cfg { cdata: 0, unescaped_gt: false, declaration: 0, indent: Some((cfgi % 4) as u32), from_document: cfgi / 4 == 0, inner: false } }
}

const INDENTS: [u32; 5] = [0, 1, 2, 3, 3 | 1 << 4];

/// chains of depth <= 2 with the whitespace-only text extra as well, under every suppress list incl. [b, a]
fn ws_sweep_cases() -> Vec<Case> {
    let mut out = vec![];
    for d1 in 0..100u32 {
        let lv = |d: u32, name: &str, inner: Option<A>| level(name, (d / 25) as usize, ((d / 5) % 5) as usize, (d % 5) as usize, inner);
        let mut trees = vec![lv(d1, "a", None)];
        for d2 in 0..100u32 {
            trees.push(lv(d1, "a", Some(lv(d2, "b", None))));
        }
        for t in trees {
            for m in INDENTS {
                for from_document in [true, false] {
                    out.push(Case { tree: A::doc(vec![t.clone()]), cfg: Cfg { cdata: 0, unescaped_gt: false, declaration: 0, indent: Some(m), from_document, inner: false } });
                }
                // the nested element serialised in place
                if t.ch.iter().any(|c| c.k == K::Elem && c.name == "b") {
                    out.push(Case { tree: A::doc(vec![t.clone()]), cfg: Cfg { cdata: 0, unescaped_gt: false, declaration: 0, indent: Some(m), from_document: false, inner: true } });
                }
            }
        }
    }
    out
}

/// <r> with three children over {a, b, c}, each with element-only content, x every ordered sublist of {a, b, c} as
/// suppress list (name ids follow the order of first occurrence in the document, so every relation between list
/// order and id order occurs)
fn suppress_list_cases() -> Vec<Case> {
    let mut out = vec![];
    let names = ["a", "b", "c"];
    for i in 0..27usize {
        let kids: Vec<A> = [i / 9, (i / 3) % 3, i % 3].iter().map(|k| A::el("", names[*k]).child(A::el("", "x").child(A::el("", "y")))).collect();
        let tree = A::doc(vec![A::el("", "r").kids(kids)]);
        for members in 0..8u32 {
            let n = members.count_ones();
            let perms = [1u32, 1, 2, 6][n as usize];
            for p in 0..perms {
                for from_document in [true, false] {
                    out.push(Case { tree: tree.clone(), cfg: Cfg { cdata: 0, unescaped_gt: false, declaration: 0, indent: Some(members | p << 4), from_document, inner: false } });
                }
            }
        }
    }
    out
}

fn general_cases(tier: Tier) -> Vec<Case> {
    let al = TreeAlphabet { elements: vec![A::el("", "a"), A::el("", "b")], leaves: vec![A::text("t"), A::text("]]>"), A::text(" "), A::comment("c")], adjacent_text: false };
    let n = tier.pick(4, 5);
    let mut out = vec![];
    for k in 1..=n {
        for t in element_trees(&al, k) {
            for cdata in 0..4 {
                for gt in [false, true] {
                    for indent in [None, Some(0), Some(1), Some(2), Some(3), Some(3 | 1 << 4)] {
                        for from_document in [true, false] {
                            out.push(Case { tree: A::doc(vec![t.clone()]), cfg: Cfg { cdata, unescaped_gt: gt, declaration: (k as u32 + cdata) % 6, indent, from_document, inner: false } });
                        }
                    }
                }
            }
        }
    }
    out
}

pub fn run(tier: Tier) -> i32 {
    let ctx = Ctx::new("C14", tier, "exploration");
    let l = tier.pick(5, 6);
    let mut stats = par_range(&ctx, text_sweep_total(l), |i, st| {
        if let Some(case) = text_sweep_case(l, i) {
            let fails = eval_case(&case, st);
            st.bump("text_sweep");
            st.outcome(&("t", i));
            if i % 9001 == 5 {
                st.sample(|| json!({"tree": case.tree.show(), "cfg": format!("{:?}", case.cfg)}));
            }
            for f in fails {
                st.fail(&case, f);
            }
        }
    });
    let it = indent_sweep_total(tier);
    stats = stats.merge(par_range(&ctx, it, |i, st| {
        let case = indent_sweep_case(tier, i);
        let fails = eval_case(&case, st);
        st.bump("indent_sweep");
        if it < 6_000_000 || i % 31 == 0 {
            st.outcome(&("i", i));
        }
        if i % 100_003 == 5 {
            st.sample(|| json!({"tree": case.tree.show(), "cfg": format!("{:?}", case.cfg)}));
        }
        for f in fails {
            st.fail(&case, f);
        }
    }));
    let ws = ws_sweep_cases();
    stats = stats.merge(par_slice(&ctx, &ws, |case, st| {
        let fails = eval_case(case, st);
        st.bump("ws_sweep");
        st.outcome(&("w", case.tree.canon(), format!("{:?}", case.cfg)));
        for f in fails {
            st.fail(case, f);
        }
    }));
    let sl = suppress_list_cases();
    stats = stats.merge(par_slice(&ctx, &sl, |case, st| {
        let fails = eval_case(case, st);
        st.bump("suppress_list_sweep");
        st.outcome(&("s", case.tree.canon(), format!("{:?}", case.cfg)));
        for f in fails {
            st.fail(case, f);
        }
    }));
    let gc = general_cases(tier);
    stats = stats.merge(par_slice(&ctx, &gc, |case, st| {
        let fails = eval_case(case, st);
        st.bump("general");
        st.outcome(&("g", case.tree.canon(), format!("{:?}", case.cfg)));
        for f in fails {
            st.fail(case, f);
        }
    }));
    if let Err(e) = require_nonzero(&stats, &["text_sweep", "indent_sweep", "ws_sweep", "suppress_list_sweep", "general", "indentation_added", "cdata_sections_written"]) {
        eprintln!("MACHINERY: {}", e);
        return 2;
    }
    let cov = json!({
        "rule": format!("(1) <a><b>S</b>S</a> for every non-empty S over {{], >, x, CR}} of length <= {} x CDATA-section subsets of {{a,b}} x unescaped_gt x 6 declaration forms; (2) chains of depth <= {} of elements a/b/a/b, each with xml:space in {{absent,preserve,default,other}} and an optional extra (element, text, comment) before and after the nested child x indentation with every suppress subset of {{a,b}} x {{document, element-rooted subtree}}; (2b) chains of depth <= 2 where the extras also include a whitespace-only text node, x every suppress list incl. [b, a]; (2c) <r> with three children over {{a, b, c}} in every arrangement (so that name ids come in every order) x every ordered sublist of {{a, b, c}} as suppress list; (3) every element tree with <= {} nodes over a,b,text,']]>' text,whitespace-only text,comment x CDATA subsets x unescaped_gt x indentation off/on x suppress subsets x root kind; oracle: reparse equals the original, or (indentation) differs only by whitespace-only text nodes outside mixed content, xml:space=preserve scope and suppressed elements", l, tier.pick(3, 4), tier.pick(4, 5)),
    });
    ctx.finish(stats, cov, vec!["re-parsing uses xot's own parser (the statement is about reparse by xot); parser correctness is C02".into()])
}
