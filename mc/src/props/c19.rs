//! C19 HTML5 serialisation follows the HTML rules and never panics.
//! E-TREE x E-CFG; the output is scanned by `HtmlScan`, a minimal HTML tokenizer written for this purpose.
use crate::atree::*;
use crate::common::*;
use crate::nsscope::{enter, resolve, base_scope, Scope};
use serde::{Deserialize, Serialize};
use serde_json::json;
use xot::output::html5::Parameters;
use xot::output::Indentation;
use xot::Xot;

pub const XHTML: &str = "http://www.w3.org/1999/xhtml";
pub const MATHML: &str = "http://www.w3.org/1998/Math/MathML";
pub const SVG: &str = "http://www.w3.org/2000/svg";
pub const FOREIGN: &str = "urn:f";

#[derive(Serialize, Deserialize, Clone)]
pub struct Case {
    pub tree: A,
    /// 0 none, 1 {p}, 2 {script}
    pub cdata: u8,
    /// None, or suppress list 0 = empty, 1 = {p}
    pub indent: Option<u8>,
    /// walk_all index of the node that is serialised (0 = the whole tree); an inner element is serialised in place,
    /// i.e. with the declarations of its ancestors in scope
    #[serde(default)]
    pub top: usize,
}

// ------------------------------------------------------------------------------------
// HtmlScan

#[derive(Debug, Clone, PartialEq)]
pub enum Tok {
    Start { name: String, attrs: Vec<(String, Option<String>)>, self_closed: bool },
    End(String),
    Text(String),
    Comment(String),
    Pi(String),
    Cdata(String),
}

pub fn html_scan(s: &str) -> Result<Vec<Tok>, String> {
    let mut out = vec![];
    let b = s.as_bytes();
    let mut i = 0;
    while i < b.len() {
        if s[i..].starts_with("<!--") {
            let e = s[i + 4..].find("-->").ok_or("unterminated comment")?;
            out.push(Tok::Comment(s[i + 4..i + 4 + e].to_string()));
            i += 4 + e + 3;
        } else if s[i..].starts_with("<![CDATA[") {
            let e = s[i + 9..].find("]]>").ok_or("unterminated CDATA")?;
            out.push(Tok::Cdata(s[i + 9..i + 9 + e].to_string()));
            i += 9 + e + 3;
        } else if s[i..].starts_with("<?") {
            let e = s[i + 2..].find('>').ok_or("unterminated PI")?;
            out.push(Tok::Pi(s[i + 2..i + 2 + e].to_string()));
            i += 2 + e + 1;
        } else if s[i..].starts_with("</") {
            let e = s[i + 2..].find('>').ok_or("unterminated end tag")?;
            out.push(Tok::End(s[i + 2..i + 2 + e].trim().to_string()));
            i += 2 + e + 1;
        } else if b[i] == b'<' && i + 1 < b.len() && (b[i + 1].is_ascii_alphabetic() || b[i + 1] == b'_' || b[i + 1] >= 0x80) {
            // start tag
            let mut j = i + 1;
            while j < b.len() && !b[j].is_ascii_whitespace() && b[j] != b'>' && b[j] != b'/' {
                j += 1;
            }
            let name = s[i + 1..j].to_string();
            let mut attrs = vec![];
            let mut self_closed = false;
            loop {
                while j < b.len() && b[j].is_ascii_whitespace() {
                    j += 1;
                }
                if j >= b.len() {
                    return Err("unterminated start tag".into());
                }
                if b[j] == b'>' {
                    j += 1;
                    break;
                }
                if b[j] == b'/' {
                    if j + 1 < b.len() && b[j + 1] == b'>' {
                        self_closed = true;
                        j += 2;
                        break;
                    }
                    return Err("stray / in tag".into());
                }
                let st = j;
                while j < b.len() && !b[j].is_ascii_whitespace() && b[j] != b'=' && b[j] != b'>' && b[j] != b'/' {
                    j += 1;
                }
                let an = s[st..j].to_string();
                if an.is_empty() {
                    return Err("empty attribute name".into());
                }
                if j < b.len() && b[j] == b'=' {
                    j += 1;
                    if j >= b.len() || (b[j] != b'"' && b[j] != b'\'') {
                        return Err("unquoted attribute value".into());
                    }
                    let q = b[j];
                    let e = s[j + 1..].find(q as char).ok_or("unterminated attribute value")?;
                    attrs.push((an, Some(s[j + 1..j + 1 + e].to_string())));
                    j += 1 + e + 1;
                } else {
                    attrs.push((an, None));
                }
            }
            let lname = name.to_ascii_lowercase();
            out.push(Tok::Start { name, attrs, self_closed });
            i = j;
            if !self_closed && (lname == "script" || lname == "style") {
                // raw text until the matching end tag
                let lower = s[i..].to_ascii_lowercase();
                let close = format!("</{}", lname);
                let e = lower.find(&close).ok_or("unterminated raw text element")?;
                if e > 0 {
                    out.push(Tok::Text(s[i..i + e].to_string()));
                }
                i += e;
            }
        } else {
            let st = i;
            i += 1;
            while i < b.len() && b[i] != b'<' {
                i += 1;
            }
            out.push(Tok::Text(s[st..i].to_string()));
        }
    }
    Ok(out)
}

/// every '&' starts a character or entity reference
fn amp_ok(s: &str) -> bool {
    let mut rest = s;
    while let Some(p) = rest.find('&') {
        let after = &rest[p + 1..];
        let Some(semi) = after.find(';') else { return false };
        let body = &after[..semi];
        let ok = !body.is_empty()
            && (body.strip_prefix('#').map(|n| n.strip_prefix('x').map(|h| !h.is_empty() && h.chars().all(|c| c.is_ascii_hexdigit())).unwrap_or(!n.is_empty() && n.chars().all(|c| c.is_ascii_digit()))).unwrap_or(false)
                || body.chars().all(|c| c.is_ascii_alphanumeric()));
        if !ok {
            return false;
        }
        rest = &after[semi + 1..];
    }
    true
}

fn unescape(s: &str) -> String {
    // named references the HTML / XML serialisers may use, and any numeric character reference
    let mut out = String::new();
    let mut rest = s;
    while let Some(p) = rest.find('&') {
        out.push_str(&rest[..p]);
        let after = &rest[p + 1..];
        let Some(semi) = after.find(';') else {
            out.push('&');
            rest = after;
            continue;
        };
        let body = &after[..semi];
        let rep: Option<char> = match body {
            "lt" => Some('<'),
            "gt" => Some('>'),
            "amp" => Some('&'),
            "quot" => Some('"'),
            "apos" => Some('\''),
            "nbsp" => Some('\u{a0}'),
            _ => body.strip_prefix('#').and_then(|n| match n.strip_prefix('x').or_else(|| n.strip_prefix('X')) {
                Some(h) => u32::from_str_radix(h, 16).ok(),
                None => n.parse::<u32>().ok(),
            }).and_then(char::from_u32),
        };
        match rep {
            Some(c) => {
                out.push(c);
                rest = &after[semi + 1..];
            }
            None => {
                out.push('&');
                rest = after;
            }
        }
    }
    out.push_str(rest);
    out
}

const VOID: [&str; 14] = ["area", "base", "br", "col", "embed", "hr", "img", "input", "link", "meta", "param", "source", "track", "wbr"];

fn is_html_ns(ns: &str) -> bool {
    ns.is_empty() || ns == XHTML
}

// ------------------------------------------------------------------------------------

pub fn eval(case: &Case) -> Vec<Fail> {
    let mut st = Stats::default();
    eval_case(case, &mut st)
}

struct Walk<'a> {
    toks: &'a [Tok],
    i: usize,
    indent: bool,
    cdata: u8,
    /// the call target is a text node whose parent (not part of the output) is a requested CDATA-section element
    top_text_in_cdata: bool,
    scopes: Vec<Scope>,
    fails: Vec<(String, String)>,
}

impl<'a> Walk<'a> {
    fn skip_ws(&mut self) {
        while self.indent {
            match self.toks.get(self.i) {
                Some(Tok::Text(t)) if t.chars().all(|c| c.is_whitespace()) => self.i += 1,
                _ => break,
            }
        }
    }
    fn fail(&mut self, sig: &str, d: String) {
        self.fails.push((sig.to_string(), d));
    }

    fn node(&mut self, a: &A, parent: Option<&A>) -> bool {
        match a.k {
            K::Doc => {
                for c in &a.ch {
                    if !self.node(c, Some(a)) {
                        return false;
                    }
                }
                true
            }
            K::Elem => {
                self.skip_ws();
                let Some(Tok::Start { name, attrs, self_closed }) = self.toks.get(self.i).cloned() else {
                    self.fail("structure|start-tag-expected", format!("at token {}: {:?} for element {}", self.i, self.toks.get(self.i), a.name));
                    return false;
                };
                self.i += 1;
                // scope from the xmlns attributes of the output
                let mut decl = A::el("", "");
                for (n, v) in &attrs {
                    if n == "xmlns" {
                        decl.nss.push(A::ns_node("", &unescape(v.as_deref().unwrap_or(""))));
                    } else if let Some(p) = n.strip_prefix("xmlns:") {
                        decl.nss.push(A::ns_node(p, &unescape(v.as_deref().unwrap_or(""))));
                    }
                }
                let scope = enter(self.scopes.last().unwrap(), &decl);
                let html = is_html_ns(&a.ns);
                let void = html && VOID.contains(&a.name.to_ascii_lowercase().as_str());
                let kind = if a.ns.is_empty() {
                    "no-namespace"
                } else if a.ns == XHTML {
                    "xhtml"
                } else if a.ns == MATHML {
                    "mathml"
                } else if a.ns == SVG {
                    "svg"
                } else {
                    "foreign"
                };
                if html || a.ns == MATHML || a.ns == SVG {
                    if name != a.name {
                        self.fail(&format!("name|{}|not-unprefixed", kind), format!("element {{{}}}{} written as <{}", a.ns, a.name, name));
                        return false;
                    }
                    if !html && scope.get("").map(|s| s.as_str()) != Some(a.ns.as_str()) {
                        self.fail(&format!("name|{}|default-namespace-not-in-effect", kind), format!("<{}> written where the default namespace is {:?}, element is in {}", name, scope.get(""), a.ns));
                    }
                } else {
                    let (p, l) = name.split_once(':').map(|(p, l)| (p.to_string(), l.to_string())).unwrap_or((String::new(), name.clone()));
                    if l != a.name || resolve(&scope, &p, false).as_deref() != Some(a.ns.as_str()) {
                        self.fail("name|foreign|resolves-elsewhere", format!("element {{{}}}{} written as <{}> in scope {:?}", a.ns, a.name, name, scope));
                    }
                }
                if html && self_closed {
                    self.fail(&format!("self-closed|{}", kind), format!("<{}/>", name));
                }
                // attributes: no raw quote or ampersand
                for (n, v) in &attrs {
                    if let Some(v) = v {
                        if v.contains('"') || !amp_ok(v) {
                            self.fail(&format!("attribute-value|raw-quote-or-ampersand|{}", if n.starts_with("xmlns") { "xmlns" } else { "ordinary" }), format!("{}=\"{}\"", n, v));
                        }
                    }
                }
                // attribute values round-trip (non-boolean forms)
                for at in &a.attrs {
                    let found = attrs.iter().find(|(n, _)| n.rsplit(':').next() == Some(at.name.as_str()));
                    match found {
                        None => self.fail("attribute|missing", format!("attribute {} of <{}> not written", at.name, name)),
                        Some((_, Some(v))) => {
                            if unescape(v) != at.val.clone().unwrap_or_default() {
                                self.fail("attribute|value-changed", format!("{}=\"{}\" for {:?}", at.name, v, at.val));
                            }
                        }
                        Some((_, None)) => {
                            if !at.val.as_deref().unwrap_or("").eq_ignore_ascii_case(&at.name) {
                                self.fail("attribute|minimised-but-not-boolean", format!("{} written without value, value is {:?}", at.name, at.val));
                            }
                        }
                    }
                }
                if self_closed {
                    if !a.ch.is_empty() {
                        self.fail("structure|self-closed-with-children", name.clone());
                        return false;
                    }
                    return true;
                }
                self.scopes.push(scope);
                for c in &a.ch {
                    if !self.node(c, Some(a)) {
                        return false;
                    }
                }
                self.scopes.pop();
                self.skip_ws();
                match self.toks.get(self.i) {
                    Some(Tok::End(n)) if *n == name => {
                        self.i += 1;
                        if void {
                            self.fail(&format!("void|end-tag-written|{}", kind), format!("</{}>", n));
                        }
                    }
                    other => {
                        if !void {
                            self.fail(&format!("end-tag|missing|{}", kind), format!("after <{}>: {:?}", name, other));
                            return false;
                        }
                    }
                }
                true
            }
            K::Text => {
                let v = a.val.clone().unwrap_or_default();
                if v.is_empty() {
                    return true;
                }
                let pname = parent.filter(|p| p.k == K::Elem);
                let raw = pname.map(|p| is_html_ns(&p.ns) && matches!(p.name.to_ascii_lowercase().as_str(), "script" | "style")).unwrap_or(false);
                let in_cdata = pname.map(|p| (self.cdata == 1 && p.name == "p" && p.ns.is_empty()) || (self.cdata == 2 && p.name == "script" && p.ns.is_empty())).unwrap_or(self.top_text_in_cdata);
                // collect the tokens that make up this text node (text and CDATA pieces)
                let mut got = String::new();
                let mut raw_lt_amp_outside = false;
                let mut any = false;
                loop {
                    match self.toks.get(self.i) {
                        Some(Tok::Text(t)) => {
                            if !raw && !amp_ok(t) {
                                raw_lt_amp_outside = true;
                            }
                            got.push_str(&if raw { t.clone() } else { unescape(t) });
                            self.i += 1;
                            any = true;
                        }
                        Some(Tok::Cdata(t)) => {
                            if !in_cdata && !raw {
                                self.fail("text|cdata-not-requested", format!("CDATA section for text {:?}", v));
                            }
                            got.push_str(t);
                            self.i += 1;
                            any = true;
                        }
                        _ => break,
                    }
                }
                if !any {
                    self.fail("structure|text-missing", format!("text {:?}", v));
                    return false;
                }
                if raw_lt_amp_outside {
                    self.fail("text|raw-ampersand-outside-script-style-cdata", format!("text {:?} written with a raw '&'", v));
                }
                let cmp = |x: &str| if self.indent { x.trim().to_string() } else { x.to_string() };
                let pkind = match pname {
                    Some(p) if p.ns == XHTML => "in-xhtml-element",
                    Some(p) if p.ns.is_empty() => "in-no-namespace-element",
                    Some(_) => "in-other-element",
                    None => "no-element-parent",
                };
                if raw && !in_cdata {
                    if cmp(&got) != cmp(&v) {
                        self.fail(&format!("text|raw-text-changed|{}", pkind), format!("{:?} written as {:?}", v, got));
                    }
                } else if cmp(&got) != cmp(&v) {
                    self.fail(&format!("text|content-changed|{}", pkind), format!("{:?} written as {:?}", v, got));
                }
                true
            }
            K::Comment => {
                self.skip_ws();
                match self.toks.get(self.i) {
                    Some(Tok::Comment(c)) if Some(c.as_str()) == a.val.as_deref() => {
                        self.i += 1;
                        true
                    }
                    other => {
                        self.fail("structure|comment-expected", format!("{:?}", other));
                        false
                    }
                }
            }
            K::Pi => {
                self.skip_ws();
                match self.toks.get(self.i) {
                    Some(Tok::Pi(_)) => {
                        self.i += 1;
                        true
                    }
                    other => {
                        self.fail("structure|pi-expected", format!("{:?}", other));
                        false
                    }
                }
            }
            _ => true,
        }
    }
}

fn has_pi_gt(a: &A) -> bool {
    (a.k == K::Pi && a.val.as_deref().unwrap_or("").contains('>')) || a.ch.iter().any(has_pi_gt)
}

pub fn eval_case(case: &Case, st: &mut Stats) -> Vec<Fail> {
    let mut fails = vec![];
    let mut xot = Xot::new();
    let mut handles = vec![];
    build(&mut xot, &case.tree, &mut handles);
    let root = handles[case.top];
    // the subtree that is serialised
    fn nth<'a>(a: &'a A, idx: &mut usize, target: usize) -> Option<&'a A> {
        if *idx == target {
            return Some(a);
        }
        *idx += 1 + a.nss.len() + a.attrs.len();
        a.ch.iter().find_map(|c| nth(c, idx, target))
    }
    let whole = &case.tree;
    let sub_owned = nth(whole, &mut 0, case.top).expect("top index").clone();
    // the parent of the call target is not written: of its influence on a text child only a requested CDATA section
    // stays (it delimits itself); the raw-text rule of script / style belongs to an element that is not in the output
    fn parent_of<'a>(a: &'a A, idx: &mut usize, target: usize) -> Option<&'a A> {
        *idx += 1 + a.nss.len() + a.attrs.len();
        for c in &a.ch {
            if *idx == target {
                return Some(a);
            }
            if let Some(p) = parent_of(c, idx, target) {
                return Some(p);
            }
        }
        None
    }
    let top_text_in_cdata = sub_owned.k == K::Text
        && parent_of(whole, &mut 0, case.top)
            .map(|p| p.k == K::Elem && ((case.cdata == 1 && p.name == "p" && p.ns.is_empty()) || (case.cdata == 2 && p.name == "script" && p.ns.is_empty())))
            .unwrap_or(false);
    let case = &Case { tree: sub_owned, cdata: case.cdata, indent: case.indent, top: case.top };
    let in_place = if case.top != 0 { format!(" (in place, node #{} of {})", case.top, whole.show()) } else { String::new() };
    let pname = xot.add_name("p");
    let sname = xot.add_name("script");
    let params = Parameters {
        indentation: case.indent.map(|s| Indentation { suppress: if s == 1 { vec![pname] } else { vec![] } }),
        cdata_section_elements: match case.cdata {
            1 => vec![pname],
            2 => vec![sname],
            _ => vec![],
        },
    };
    let cfg = format!("cdata={} indent={:?}{}", case.cdata, case.indent, in_place);
    st.evals += 1;
    let r = catch(|| {
        let h = xot.html5();
        h.serialize_string(params.clone(), root)
    });
    let text = match r {
        Err(p) => {
            let feature = single_feature(&case.tree);
            fails.push(Fail::new(format!("panic|{}|{}", feature, panic_class(&p)), format!("{} [{}]: {}", case.tree.show(), cfg, p)));
            return fails;
        }
        Ok(Err(_)) => {
            st.bump("err");
            return fails;
        }
        Ok(Ok(t)) => t,
    };
    st.bump("ok");
    // the Write-based entry point against a scripted sink: short writes must not change the bytes; an I/O error at
    // the n-th write call (every n) must come back as a result, never as a panic, with a prefix of the output accepted
    {
        let mut sw = ScriptedWriter::new(3, None);
        let r = catch(|| xot.html5().serialize_write(params.clone(), root, &mut sw));
        st.evals += 1;
        match r {
            Ok(Ok(())) if sw.data == text.as_bytes() => {}
            other => fails.push(Fail::new("write|short-writes-change-output", format!("{} [{}]: {:?} wrote {:?}", case.tree.show(), cfg, other.map(|r| r.map_err(|e| format!("{:?}", e))), String::from_utf8_lossy(&sw.data)))),
        }
        let mut count = ScriptedWriter::new(usize::MAX, None);
        let _ = catch(|| xot.html5().serialize_write(params.clone(), root, &mut count));
        for n in 0..count.calls {
            let mut fw = ScriptedWriter::new(usize::MAX, Some(n));
            let r = catch(|| xot.html5().serialize_write(params.clone(), root, &mut fw));
            st.evals += 1;
            st.bump("io_errors_injected");
            match r {
                Err(p) => {
                    fails.push(Fail::new(format!("panic|io-error-in-writer|{}", panic_class(&p)), format!("{} [{}]: writer fails at call {}: {}", case.tree.show(), cfg, n, p)));
                    break;
                }
                Ok(Ok(())) => {
                    fails.push(Fail::new("write|io-error-swallowed", format!("{} [{}]: writer fails at call {} but the call answers Ok", case.tree.show(), cfg, n)));
                    break;
                }
                Ok(Err(_)) => {
                    if !text.as_bytes().starts_with(&fw.data) {
                        fails.push(Fail::new("write|not-a-prefix-after-io-error", format!("{} [{}]: call {}: {:?}", case.tree.show(), cfg, n, String::from_utf8_lossy(&fw.data))));
                        break;
                    }
                }
            }
        }
    }
    if has_pi_gt(&case.tree) {
        fails.push(Fail::new("pi|gt-not-refused", format!("{} -> {:?}", case.tree.show(), text)));
        return fails;
    }
    let Some(body) = text.strip_prefix("<!DOCTYPE html>") else {
        fails.push(Fail::new("doctype|missing", format!("{:?}", text)));
        return fails;
    };
    if matches!(case.tree.k, K::Attr | K::Ns) {
        return fails;
    }
    let toks = match html_scan(body) {
        Ok(t) => t,
        Err(e) => {
            fails.push(Fail::new(format!("scan|{}", e), format!("{} [{}] -> {:?}", case.tree.show(), cfg, text)));
            return fails;
        }
    };
    let mut w = Walk { toks: &toks, i: 0, indent: case.indent.is_some(), cdata: case.cdata, top_text_in_cdata, scopes: vec![base_scope()], fails: vec![] };
    let complete = w.node(&case.tree, None);
    w.skip_ws();
    if complete && w.i != toks.len() {
        w.fails.push(("structure|extra-output".into(), format!("{:?}", &toks[w.i..])));
    }
    for (sig, d) in w.fails {
        fails.push(Fail::new(sig, format!("{} [{}] -> {:?}: {}", case.tree.show(), cfg, text, d)));
    }
    fails
}

fn single_feature(a: &A) -> &'static str {
    match a.k {
        K::Text => "detached-text",
        K::Doc => {
            if a.ch.iter().any(|c| c.k == K::Text) {
                "text-under-document"
            } else {
                "document"
            }
        }
        K::Elem => "element",
        K::Comment => "detached-comment",
        K::Pi => "detached-pi",
        K::Attr => "detached-attribute",
        K::Ns => "detached-namespace",
    }
}

// ------------------------------------------------------------------------------------
// enumeration

const NAMES: [&str; 13] = ["br", "BR", "Br", "bR", "p", "P", "span", "div", "pre", "script", "sCRIPT", "style", "foo"];
const NSS: [&str; 5] = ["", XHTML, MATHML, SVG, FOREIGN];
const TEXT2: [&str; 7] = ["<", "&", "\"", "'", ">", "\u{a0}", "x"];

fn proto(name: &str, ns: &str, decl: u8) -> A {
    let mut e = A::el(ns, name);
    if !ns.is_empty() {
        match decl {
            0 => e = e.decl("", ns),
            1 => e = e.decl("h", ns),
            _ => {}
        }
    }
    e
}

fn single_cases(tier: Tier) -> Vec<A> {
    let mut out = vec![];
    let texts: Vec<String> = {
        let l = tier.pick(2, 3);
        (1..crate::gen::strings_count(7, l)).map(|i| crate::gen::nth_str(&TEXT2, l, i)).collect()
    };
    for name in NAMES {
        for ns in NSS {
            for decl in 0..2u8 {
                if ns.is_empty() && decl == 1 {
                    continue;
                }
                let e = proto(name, ns, decl);
                let void = is_html_ns(ns) && VOID.contains(&name.to_ascii_lowercase().as_str());
                out.push(e.clone());
                out.push(e.clone().attr("", "k", "v"));
                out.push(e.clone().attr("", "checked", "checked"));
                out.push(e.clone().attr("", "Checked", "CHECKED"));
                if void {
                    // a void element that nevertheless has content: still no end tag
                    out.push(e.clone().child(A::text("x")));
                    out.push(e.clone().child(A::el("", "span")));
                }
                if !void {
                    out.push(e.clone().child(A::el("", "p")));
                    out.push(e.clone().child(A::text("x")).child(A::el(ns, "span")).child(A::text("y")));
                }
                for t in texts.iter().step_by(if tier == Tier::Quick && name != "p" && name != "script" { 5 } else { 1 }) {
                    out.push(e.clone().attr("", "k", t));
                    if !void {
                        out.push(e.clone().child(A::text(t)));
                    }
                }
            }
        }
    }
    out
}

fn sibling_cases() -> Vec<A> {
    let parents = vec![A::el("", "div"), A::el(XHTML, "div").decl("", XHTML), A::el(FOREIGN, "w").decl("f", FOREIGN), A::el(SVG, "svg").decl("", SVG)];
    let kids = vec![
        A::el(SVG, "svg"),
        A::el(SVG, "svg").decl("", SVG),
        A::el(SVG, "g").decl("s", SVG),
        A::el(MATHML, "math"),
        A::el(MATHML, "math").decl("", MATHML),
        A::el("", "br"),
        A::el("", "BR"),
        A::el(XHTML, "br"),
        A::el(XHTML, "Br").decl("h", XHTML),
        A::el("", "script").child(A::text("a<b&c")),
        A::el("", "style").child(A::text("a<b")),
        A::el("", "p").child(A::text("a<b&c")),
        A::el("", "p").attr(FOREIGN, "k", "v").decl("f", FOREIGN),
        A::el(FOREIGN, "x").decl("", FOREIGN),
        A::el("", "span").child(A::el(SVG, "svg").child(A::el("", "p"))),
        // void elements inside an island that gets its default namespace from the serialiser
        A::el(MATHML, "math").child(A::el("", "br")),
        A::el(SVG, "svg").child(A::el("", "span").child(A::el("", "BR"))).child(A::el(SVG, "g")),
        // an attribute without namespace that is called xmlns: written as it stands it is a declaration
        A::el(SVG, "g").attr("", "xmlns", "urn:evil").child(A::el(SVG, "circle")),
        A::el(MATHML, "math").attr("", "xmlns", "urn:evil"),
        A::el("", "p").attr("", "xmlns", SVG).child(A::el(SVG, "svg")),
        A::comment("c"),
        A::pi("pi", Some("d")),
        A::pi("pi", Some("a>b")),
        A::text("t"),
    ];
    let mut out = vec![];
    for p in &parents {
        for a in &kids {
            out.push(p.clone().child(a.clone()));
            for b in &kids {
                if a.k == K::Text && b.k == K::Text {
                    continue;
                }
                out.push(p.clone().child(a.clone()).child(b.clone()));
            }
        }
    }
    out
}

/// chains of three nested elements over the five namespaces: every level either relies on the prefixes the root
/// declares (h, m, s, f) or declares its namespace as the default on itself; the innermost element has a text child
/// and a following sibling of the same kind (a binding that leaks or goes stale shows up in one of them)
fn chain_cases() -> Vec<A> {
    let name_of = |ns: &str| match ns {
        "" => "div",
        XHTML => "span",
        MATHML => "math",
        SVG => "svg",
        _ => "x",
    };
    let mk = |ns: &str, own: bool| {
        let e = A::el(ns, name_of(ns));
        if own && !ns.is_empty() {
            e.decl("", ns)
        } else {
            e
        }
    };
    let mut out = vec![];
    // an element that declares a default namespace which is not its own (it is written with a prefix itself): the
    // declaration is there for the elements below it
    for outer in [FOREIGN, ""] {
        for inner in [SVG, MATHML, FOREIGN, "urn:g"] {
            if outer.is_empty() && inner != "urn:g" {
                continue;
            }
            let child = A::el(inner, name_of(inner)).child(A::el(inner, "g")).child(A::text("t"));
            let top = if outer.is_empty() { A::el("urn:h", "x").decl("h2", "urn:h").decl("", inner) } else { A::el(outer, "x").decl("f", outer).decl("", inner) };
            out.push(A::el("", "body").child(top.clone().child(child.clone()).child(child.clone())));
            out.push(top.child(child));
        }
    }
    for n1 in NSS {
        for n2 in NSS {
            for n3 in NSS {
                for own in 0..8u8 {
                    if (n1.is_empty() && own & 1 != 0) || (n2.is_empty() && own & 2 != 0) || (n3.is_empty() && own & 4 != 0) {
                        continue;
                    }
                    let l3 = mk(n3, own & 4 != 0).child(A::text("a<b"));
                    let l2 = mk(n2, own & 2 != 0).child(l3.clone()).child(mk(n3, own & 4 != 0));
                    let l1 = mk(n1, own & 1 != 0).child(l2);
                    let root = A::el("", "body").decl("h", XHTML).decl("m", MATHML).decl("s", SVG).decl("f", FOREIGN).child(l1);
                    out.push(root.clone());
                    // the same with attributes of the root in the MathML and SVG namespaces: the HTML5 serialiser
                    // writes a prefix declaration for those namespaces only where an attribute needs it, so only
                    // now are m and s really in scope for the elements below
                    out.push(root.attr(MATHML, "k", "v").attr(SVG, "k", "v"));
                }
            }
        }
    }
    out
}

fn odd_cases() -> Vec<A> {
    vec![
        A::text("t"),
        A::text("<&"),
        A::comment("c"),
        A::pi("pi", Some("d")),
        A::pi("pi", Some("a>b")),
        A::pi("pi", None),
        A::attr_node("", "k", "v"),
        A::ns_node("p", SVG),
        A::doc(vec![]),
        A::doc(vec![A::text("t")]),
        A::doc(vec![A::text("t"), A::el("", "p")]),
        A::doc(vec![A::comment("c"), A::el("", "html").child(A::el("", "body").child(A::text("x")))]),
        A::doc(vec![A::el("", "p"), A::text("<")]),
        A::doc(vec![A::pi("pi", Some("a>b"))]),
        // namespace URIs that need escaping inside the xmlns attribute
        A::doc(vec![A::el("urn:a&b", "x").decl("", "urn:a&b")]),
        A::doc(vec![A::el("urn:a\"b", "x").decl("f", "urn:a\"b")]),
        A::doc(vec![A::el("", "p").decl("f", "urn:a&b").attr("urn:a&b", "k", "v")]),
    ]
}

pub fn run(tier: Tier) -> i32 {
    let ctx = Ctx::new("C19", tier, "exploration");
    let mut trees: Vec<A> = vec![];
    for e in single_cases(tier) {
        trees.push(A::doc(vec![e.clone()]));
        if e.ch.is_empty() && e.attrs.is_empty() {
            trees.push(e);
        }
    }
    for e in sibling_cases() {
        trees.push(A::doc(vec![e]));
    }
    for e in chain_cases() {
        trees.push(A::doc(vec![e]));
    }
    trees.extend(odd_cases());
    // script / style are raw-text elements: element children cannot be represented in HTML at all
    fn raw_with_markup(a: &A) -> bool {
        (a.k == K::Elem && is_html_ns(&a.ns) && matches!(a.name.to_ascii_lowercase().as_str(), "script" | "style") && a.ch.iter().any(|c| c.k != K::Text)) || a.ch.iter().any(raw_with_markup)
    }
    trees.retain(|t| !raw_with_markup(t));
    // an element called script / style outside the HTML namespaces is an XML island the scanner (like an HTML
    // parser) would still read as raw text; the statement does not cover it
    fn foreign_raw_name(a: &A) -> bool {
        (a.k == K::Elem && !is_html_ns(&a.ns) && matches!(a.name.to_ascii_lowercase().as_str(), "script" | "style")) || a.ch.iter().any(foreign_raw_name)
    }
    trees.retain(|t| !foreign_raw_name(t));
    let stats = par_slice(&ctx, &trees, |t, st| {
        // inner elements of the nested trees are also serialised in place
        let mut tops = vec![0usize];
        let mut text_tops = vec![];
        if t.k == K::Doc && t.ch.len() == 1 && t.ch[0].k == K::Elem && t.ch[0].ch.iter().any(|c| c.k == K::Elem && !c.ch.is_empty()) {
            let mut i = 0usize;
            t.walk_all(&mut |n: &A| {
                if n.k == K::Elem && i > 1 {
                    tops.push(i);
                }
                i += 1;
            });
        }
        // and so is every text node (its parent, script and style included, is then not part of the output)
        if t.k == K::Doc {
            let mut i = 0usize;
            t.walk_all(&mut |n: &A| {
                if n.k == K::Text && i > 0 {
                    tops.push(i);
                    text_tops.push(i);
                }
                i += 1;
            });
        }
        for top in tops {
        for cdata in 0..3u8 {
            for indent in [None, Some(0u8), Some(1u8)] {
                if top != 0 && (indent == Some(1) || (cdata == 2 && !text_tops.contains(&top))) {
                    continue;
                }
                let case = Case { tree: t.clone(), cdata, indent, top };
                let fails = eval_case(&case, st);
                st.bump("cases");
                st.outcome(&(t.canon(), cdata, indent, top));
                if top != 0 {
                    st.bump("in_place_cases");
                }
                for f in fails {
                    st.fail(&case, f);
                }
            }
        }
        }
        if st.counters["cases"] % 9001 == 9 {
            st.sample(|| json!({"tree": t.show()}));
        }
    });
    if let Err(e) = require_nonzero(&stats, &["cases", "ok", "err", "in_place_cases"]) {
        eprintln!("MACHINERY: {}", e);
        return 2;
    }
    let cov = json!({
        "rule": format!("(1) single elements: 11 names (br/BR/Br/p/P/span/div/pre/script/style/foo) x 5 namespaces (none, the real XHTML URI, MathML, SVG, foreign) x default / prefixed declaration, bare, with ordinary / boolean attributes, with children, with every text / attribute value of length <= {} over {{<,&,\",',>,U+00A0,x}}; (2) 4 parents x all ordered pairs of 24 children (SVG / MathML siblings with and without own declarations, void elements in every letter case, script / style / p with markup characters, foreign elements, comments, PIs with and without '>', text); (2b) every chain of three nested elements over the 5 namespaces, each level using a prefix declared on the root or declaring its namespace as default on itself, with a text child and a following sibling at the innermost level, each chain under a plain root and under a root with attributes in the MathML and SVG namespaces (which puts the prefixes m and s in scope of the output); (2c) every inner element of the nested trees of (2) / (2b) and every text node of every tree serialised in place (the declarations of its ancestors in scope; the parent - script and style included - not part of the output); (3) detached nodes of every kind and text directly under a document; x CDATA-section elements {{none, p, script}} x indentation {{off, on, on with p suppressed}}; distinct = distinct (tree, parameters)", tier.pick(2, 3)),
    });
    ctx.finish(stats, cov, vec!["HtmlScan (120 lines) is trusted; it knows script / style as raw-text elements".into()])
}
