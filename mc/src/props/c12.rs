//! C12 A clone is equal to its source and shares nothing with it.
use crate::atree::*;
use crate::bfs::*;
use crate::common::*;
use crate::gen::*;
use crate::histcommon::*;
use crate::nsscope::*;
use crate::props::c01::norm;
use crate::world::*;
use crate::xmlread::*;
use serde::{Deserialize, Serialize};
use serde_json::json;
use xot::Xot;

#[derive(Serialize, Deserialize, Clone)]
pub enum Case {
    /// clone_node(node at walk index) in a forest, then one more operation
    Clone { start: Start, node: usize, then: Option<Op> },
    /// clone_with_prefixes of the element at walk index `node` of a layout document
    WithPrefixes { tree: A, node: usize },
    /// Xot::clone of a start forest, then an operation on one of the two stores
    XotClone { start: Start, op: Option<Op>, on_clone: bool },
    /// `clones` times clone_node of one small element, every copy kept; then a clone is removed and another is made
    CloneWear { clones: u32 },
}

fn ids_of(a: &A, out: &mut Vec<u32>) {
    a.walk_all(&mut |n: &A| out.push(n.id));
}

fn eval_clone(start: &Start, node: usize, then: &Option<Op>, st: &mut Stats) -> Vec<Fail> {
    let mut fails = vec![];
    let Some((mut w, f0)) = replay_world(start, &[]) else { return vec![Fail::new("machinery|start", "")] };
    let known_before = w.tab.len();
    let src = find(&f0, node as u32 + 1).cloned();
    let Some(src) = src else { return fails };
    let kind = src.k.name();
    let cons = w.consolidation;
    let ctx = |d: &str| format!("clone_node(#{}) in [{}] (consolidation {}): {}", node + 1, forest_show(&f0), cons, d);
    st.evals += 1;
    let out = w.apply(&Op::CloneNode(node));
    let Outcome::Ok(Some(cn)) = out else {
        return vec![Fail::new(format!("clone_node-fails|{}", kind), format!("{:?}", out))];
    };
    w.refresh_liveness();
    let f1 = match w.snapshot() {
        Ok(f) => f,
        Err(e) => return vec![Fail::new(format!("clone_node-breaks-forest|{}", kind), e)],
    };
    // 1. source forest unchanged
    let before: Vec<String> = f0.iter().map(|t| t.canon_ids()).collect();
    let after_old: Vec<String> = f1.iter().filter(|t| (t.id as usize) <= known_before).map(|t| t.canon_ids()).collect();
    if before != after_old {
        fails.push(Fail::new(format!("source-changed-by-cloning|{}", kind), ctx(&format!("after: [{}]", forest_show(&f1)))));
        return fails;
    }
    // 2. the clone: new unattached tree, equal to the source, all handles new
    let cid = w.tab.get(cn).map(|h| h as u32 + 1).unwrap_or(0);
    let Some(ct) = f1.iter().find(|t| t.id == cid) else {
        fails.push(Fail::new(format!("clone-not-unattached|{}", kind), ctx("the returned node is not the root of a tree")));
        return fails;
    };
    let mut cids = vec![];
    ids_of(ct, &mut cids);
    if cids.iter().any(|i| (*i as usize) <= known_before) {
        fails.push(Fail::new(format!("clone-shares-nodes|{}", kind), ctx(&format!("clone {} contains pre-existing handles", ct.canon_ids()))));
        return fails;
    }
    let expected = if w.consolidation { src.strip_ids().merge_text() } else { src.strip_ids() };
    if let Some(d) = diff_class(&expected, &ct.strip_ids()) {
        fails.push(Fail::new(format!("clone-differs|{}|{}", kind, d.split(':').next().unwrap_or("")), ctx(&format!("expected {} got {}", expected.show(), ct.show()))));
        return fails;
    }
    st.bump("clones_checked");
    // deep_equal agrees when no text merge was needed
    if expected == src.strip_ids() && !w.xot.deep_equal(w.node(node), cn) {
        fails.push(Fail::new(format!("clone-not-deep_equal|{}", kind), ctx("")));
    }
    // 3. one more operation confined to one side leaves the other side untouched
    if let Some(op) = then {
        let pre = f1.clone();
        let args: Vec<u32> = op.args().iter().map(|h| *h as u32 + 1).collect();
        let on_clone = args.iter().all(|a| cids.contains(a));
        let on_source = args.iter().all(|a| !cids.contains(a));
        if !(on_clone || on_source) || args.is_empty() {
            return fails;
        }
        st.evals += 1;
        let out = w.apply(op);
        if let Outcome::Panic(_) = out {
            return fails; // C06's subject
        }
        w.refresh_liveness();
        let Ok(f2) = w.snapshot() else { return fails };
        let untouched: Vec<&A> = if on_clone { pre.iter().filter(|t| t.id != cid).collect() } else { pre.iter().filter(|t| t.id == cid).collect() };
        for t in untouched {
            match f2.iter().find(|x| x.id == t.id) {
                Some(x) if x.canon_ids() == t.canon_ids() => {}
                other => {
                    fails.push(Fail::new(
                        format!("mutation-leaks|{}|{}", if on_clone { "clone->source" } else { "source->clone" }, op.name()),
                        ctx(&format!("after {:?}: untouched tree {} became {:?}", op, t.show(), other.map(|x| x.show()))),
                    ));
                    break;
                }
            }
        }
        st.bump("mutations_checked");
    }
    fails
}

fn eval_with_prefixes(tree: &A, node: usize, st: &mut Stats) -> Vec<Fail> {
    let mut fails = vec![];
    let mut xot = Xot::new();
    let mut handles = vec![];
    let doc = A::doc(vec![tree.clone()]);
    build(&mut xot, &doc, &mut handles);
    let n = handles[node];
    if !xot.is_element(n) {
        return fails;
    }
    let Ok(src_text) = xot.to_string(n) else {
        st.bump("source_not_serialisable");
        return fails;
    };
    st.evals += 1;
    // two evaluations: hash order is observed, not controlled
    for _ in 0..2 {
        let c = match catch(|| xot.clone_with_prefixes(n)) {
            Ok(c) => c,
            Err(p) => {
                fails.push(Fail::new(format!("panic|clone_with_prefixes|{}", panic_class(&p)), tree.show()));
                return fails;
            }
        };
        if xot.parent(c).is_some() {
            fails.push(Fail::new("clone_with_prefixes|not-unattached", tree.show()));
        }
        match xot.to_string(c) {
            Err(e) => {
                fails.push(Fail::new(
                    format!("clone_with_prefixes|clone-not-serialisable|{}", crate::props::c01::err_class(&format!("{:?}", e))),
                    format!("element #{} of {} serialises in place as {:?}; its clone_with_prefixes {} fails with {:?}", node, doc.show(), src_text, read(&xot, c).show(), e),
                ));
                return fails;
            }
            Ok(text) => {
                // names of the clone's text = names of the source's text
                let (a, b) = (read_fragment(&src_text), read_fragment(&text));
                match (a, b) {
                    (Read::WellFormed(a), Read::WellFormed(b)) => {
                        if let Some(d) = diff_class(&norm(&a.without_decls()), &norm(&b.without_decls())) {
                            fails.push(Fail::new(format!("clone_with_prefixes|meaning-differs|{}", d), format!("{:?} vs {:?}", src_text, text)));
                            return fails;
                        }
                    }
                    other => {
                        fails.push(Fail::new("clone_with_prefixes|unreadable", format!("{:?}", other)));
                        return fails;
                    }
                }
                // own declarations of the source are kept with their bindings
                let src_a = read(&xot, n);
                let clone_a = read(&xot, c);
                for d in &src_a.nss {
                    if !clone_a.nss.iter().any(|x| x.name == d.name && x.ns == d.ns) {
                        fails.push(Fail::new("clone_with_prefixes|own-declaration-lost-or-overridden", format!("{} -> {}", src_a.show(), clone_a.show())));
                        return fails;
                    }
                }
                if let Some(d) = diff_class(&norm(&src_a.without_decls()), &norm(&clone_a.without_decls())) {
                    fails.push(Fail::new(format!("clone_with_prefixes|content-differs|{}", d), format!("{} -> {}", src_a.show(), clone_a.show())));
                    return fails;
                }
                if clone_a.nss.len() > src_a.nss.len() {
                    st.bump("prefixes_inherited");
                }
            }
        }
    }
    fails
}

fn eval_xot_clone(start: &Start, op: &Option<Op>, on_clone: bool, st: &mut Stats) -> Vec<Fail> {
    let mut fails = vec![];
    let Some((w0, f0)) = replay_world(start, &[]) else { return vec![Fail::new("machinery|start", "")] };
    let mut w1 = w0.clone(); // World::clone clones the Xot with #[derive(Clone)]
    let mut w0 = w0;
    st.evals += 1;
    let Ok(f1) = w1.snapshot() else { return vec![Fail::new("xot-clone|unreadable", "")] };
    let c0: Vec<String> = f0.iter().map(|t| t.canon_ids()).collect();
    let c1: Vec<String> = f1.iter().map(|t| t.canon_ids()).collect();
    if c0 != c1 {
        fails.push(Fail::new("xot-clone|handles-denote-different-nodes", format!("[{}] vs [{}]", forest_show(&f0), forest_show(&f1))));
        return fails;
    }
    // to_string of every root agrees (names / prefixes tables cloned)
    for t in &f0 {
        let n = w0.node(t.id as usize - 1);
        if format!("{:?}", w0.xot.to_string(n)) != format!("{:?}", w1.xot.to_string(n)) {
            fails.push(Fail::new("xot-clone|serialises-differently", t.show()));
        }
    }
    if let Some(op) = op {
        st.evals += 1;
        let (target, other, other_before) = if on_clone { (&mut w1, &mut w0, c0.clone()) } else { (&mut w0, &mut w1, c1.clone()) };
        let out = target.apply(op);
        if let Outcome::Panic(_) = out {
            return fails;
        }
        let Ok(fo) = other.snapshot() else { return vec![Fail::new("xot-clone|other-store-unreadable", format!("{:?}", op))] };
        // only the trees known before
        let co: Vec<String> = fo.iter().map(|t| t.canon_ids()).collect();
        if co != other_before {
            fails.push(Fail::new(format!("xot-clone|mutation-leaks|{}", op.name()), format!("{:?} on the {} changed the other store: [{}]", op, if on_clone { "clone" } else { "original" }, forest_show(&fo))));
        }
        st.bump("xot_clone_mutations");
    }
    fails
}

/// "made entirely of new nodes", far from the first call: cloning by itself must not use up the arena. Nothing is
/// removed by the caller until the last step; if clone_node frees a scratch node per call, the slot it frees is worn
/// (its 16-bit generation stamp saturates, KF-C04-07) and the handle of a clone the caller removed denotes the next
/// clone.
fn eval_clone_wear(clones: u32, st: &mut Stats) -> Vec<Fail> {
    let mut xot = Xot::new();
    let doc = xot.parse("<a k='v'><b/>t</a>").unwrap();
    let a = xot.document_element(doc).unwrap();
    let text = xot.new_text("t");
    let mut keep = Vec::with_capacity(clones as usize);
    for _ in 0..clones {
        keep.push(xot.clone_node(a));
    }
    st.evals += clones as u64 + 2;
    let first = xot.clone_node(text);
    xot.remove(first).unwrap();
    let second = xot.clone_node(text);
    st.bump("clone_wear_lines");
    let mut fails = vec![];
    if second == first || !xot.is_removed(first) {
        fails.push(Fail::new(
            "clone-wear|handle-of-a-removed-clone-denotes-the-next-clone",
            format!("after {} clone_node calls on <a k='v'><b/>t</a> (all copies kept): first = clone_node(text); remove(first); second = clone_node(text) gives second == first: {} / is_removed(first): {}", clones, second == first, xot.is_removed(first)),
        ));
    }
    if keep.iter().any(|k| xot.is_removed(*k)) {
        fails.push(Fail::new("clone-wear|kept-clone-reported-removed", format!("after {} clones", clones)));
    }
    fails
}

pub fn eval(case: &Case) -> Vec<Fail> {
    let mut st = Stats::default();
    match case {
        Case::Clone { start, node, then } => eval_clone(start, *node, then, &mut st),
        Case::WithPrefixes { tree, node } => eval_with_prefixes(tree, *node, &mut st),
        Case::XotClone { start, op, on_clone } => eval_xot_clone(start, op, *on_clone, &mut st),
        Case::CloneWear { clones } => eval_clone_wear(*clones, &mut st),
    }
}

fn clone_starts(tier: Tier) -> Vec<Start> {
    let al = TreeAlphabet {
        elements: vec![A::el("", "a"), A::el(X, "b").attr("", "k", "1").attr(X, "l", "2").decl("p", X).decl("", Y)],
        leaves: vec![A::text("t"), A::text("u"), A::comment("c"), A::pi("pi", Some("d"))],
        adjacent_text: true,
    };
    let n = tier.pick(4, 5);
    let mut out = vec![];
    for k in 0..=n {
        for f in forests(&al, k) {
            let has_adjacent = f.windows(2).any(|w| w[0].k == K::Text && w[1].k == K::Text) || {
                fn adj(a: &A) -> bool {
                    a.ch.windows(2).any(|w| w[0].k == K::Text && w[1].k == K::Text) || a.ch.iter().any(adj)
                }
                f.iter().any(adj)
            };
            for consolidation in [true, false] {
                // adjacent text only exists when built with consolidation off; cloning with consolidation on merges it
                out.push(Start {
                    name: format!("{}:{}", consolidation, forest_show(&[A::doc(f.clone())])),
                    forest: vec![A::doc(f.clone())],
                    adjacent_text: has_adjacent,
                    consolidation,
                    parse: vec![],
                });
            }
        }
    }
    // detached attribute / namespace node sources
    out.push(Start { name: "attr".into(), forest: vec![A::attr_node(X, "l", "2"), A::ns_node("p", X)], adjacent_text: false, consolidation: true , parse: vec![]});
    out
}

pub fn run(tier: Tier) -> i32 {
    let ctx = Ctx::new("C12", tier, "model_checking");
    // (1)+(2): clone every node of every small tree, then every operation confined to one side
    let starts = clone_starts(tier);
    let menu = OpMenu { creation: false, parse: false, consolidation_switch: false, helpers: true };
    let mutate_depth = tier.pick(1, 1);
    let _ = mutate_depth;
    let mut stats = par_slice(&ctx, &starts, |start, st| {
        let Some((_w, f0)) = replay_world(start, &[]) else { return };
        let hs = canonical_handles(&f0);
        for &h in &hs {
            let c0 = Case::Clone { start: start.clone(), node: h, then: None };
            let fails = eval(&c0);
            st.evals += 1;
            st.bump("clone_cases");
            st.outcome(&(start.name.clone(), h));
            let ok = fails.is_empty();
            for f in fails {
                st.fail(&c0, f);
            }
            if !ok {
                continue;
            }
            // mutations: only for small trees (quadratic), all ops of the menu
            if f0.iter().map(|t| t.size()).sum::<usize>() <= 5 {
                // forest after cloning, to enumerate argument tuples
                let Some((mut w, _)) = replay_world(start, &[]) else { continue };
                w.apply(&Op::CloneNode(h));
                w.refresh_liveness();
                let Ok(f1) = w.snapshot() else { continue };
                for op in all_ops(&f1, menu) {
                    let c = Case::Clone { start: start.clone(), node: h, then: Some(op) };
                    let mut lst = Stats::default();
                    let fails = match &c {
                        Case::Clone { start, node, then } => eval_clone(start, *node, then, &mut lst),
                        _ => vec![],
                    };
                    st.evals += lst.evals;
                    for (k, v) in lst.counters {
                        st.add(k, v);
                    }
                    for f in fails {
                        st.fail(&c, f);
                    }
                }
            }
        }
        if st.counters.get("clone_cases").copied().unwrap_or(0) % 977 == 1 {
            st.sample(|| json!({"start": start.name}));
        }
    });
    // (3) clone_with_prefixes on every element of every 2- and 3-element layout
    let s = SPEC_TOTAL;
    let red = tier.pick(small_specs(), reduced_specs());
    let r = red.len() as u64;
    let total = s * s + r * r * r;
    stats = stats.merge(par_range(&ctx, total, |i, st| {
        let t = if i < s * s { layout_tree(1, &[spec_from(i / s), spec_from(i % s)]) } else {
            let j = i - s * s;
            layout_tree(2, &[red[(j / (r * r)) as usize], red[((j / r) % r) as usize], red[(j % r) as usize]])
        };
        // element walk indices in the document
        let doc = A::doc(vec![t.clone()]);
        let mut idx = 0usize;
        let mut elems = vec![];
        doc.walk_all(&mut |n: &A| {
            if n.k == K::Elem {
                elems.push(idx);
            }
            idx += 1;
        });
        for e in elems {
            let fails = eval_with_prefixes(&t, e, st);
            st.bump("with_prefixes_cases");
            for f in fails {
                st.fail(&Case::WithPrefixes { tree: t.clone(), node: e }, f);
            }
        }
        if total < 4_000_000 || i % 97 == 0 {
            st.outcome(&("wp", i));
        }
    }));
    // (4) Xot::clone of every BFS start, every operation on either store
    for start in starts_for_xot_clone() {
        let Some((_w, f0)) = replay_world(&start, &[]) else { continue };
        let ops = all_ops(&f0, OpMenu::full());
        let res = par_slice(&ctx, &ops, |op, st| {
            for on_clone in [true, false] {
                let fails = eval_xot_clone(&start, &Some(op.clone()), on_clone, st);
                for f in fails {
                    st.fail(&Case::XotClone { start: start.clone(), op: Some(op.clone()), on_clone }, f);
                }
            }
        });
        stats = stats.merge(res);
    }
    // (5) wear: 2^15 + 1 and 2^16 + 1 clones of one element
    {
        let mut st = Stats::default();
        for clones in [32_769u32, 65_537] {
            let case = Case::CloneWear { clones };
            for f in eval_clone_wear(clones, &mut st) {
                st.fail(&case, f);
            }
        }
        stats = stats.merge(st);
    }
    if let Err(e) = require_nonzero(&stats, &["clones_checked", "mutations_checked", "with_prefixes_cases", "prefixes_inherited", "xot_clone_mutations", "clone_wear_lines"]) {
        eprintln!("MACHINERY: {}", e);
        return 2;
    }
    let states = stats.distinct.len() as u64;
    let transitions = stats.evals;
    let cov = json!({
        "states": states,
        "transitions": transitions,
        "traces_validated_against_impl": transitions,
        "rule": format!("(1) clone_node of every node (all seven kinds) of every document with <= {} ordinary nodes over 2 element prototypes (attributes, declarations) and text/comment/PI leaves incl. adjacent text, consolidation on and off: clone unattached, equal to the source (merged text when on), made of new handles, source forest untouched; (2) for sources with <= 5 nodes every operation of the mutating alphabet confined to the clone or to the source leaves the other side's read-back identical; (3) clone_with_prefixes of every element of every 2-element layout and of 3-element chains over a reduced menu: clone serialises whenever the source does in place, same names, own declarations kept; (4) Xot::clone of the six BFS starts: same handles denote equal nodes, every operation on one store leaves the other unchanged; (5) 32 769 and 65 537 clone_node calls on one small element (copies kept), then clone - remove - clone: the removed handle must not denote the new clone; states = distinct (start, cloned node) and layouts", tier.pick(4, 5)),
    });
    ctx.finish(stats, cov, vec!["hash iteration order observed, not controlled: clone_with_prefixes evaluated twice".into()])
}

fn starts_for_xot_clone() -> Vec<Start> {
    starts()
}
