//! C07 Axes and traversals obey the XPath document-order laws.
//! E-TREE: every labelled tree up to N ordinary nodes (+ attribute / namespace decorations)
//! x every node x every traversal entry point, against lists computed on the abstract tree.
use crate::atree::*;
use crate::common::*;
use crate::gen::*;
use serde::{Deserialize, Serialize};
use serde_json::json;
use xot::{Axis, LevelOrder, Node, NodeEdge, Xot};

#[derive(Serialize, Deserialize, Clone)]
pub struct Case {
    pub tree: A,
}

/// flat view of an abstract tree in walk_all order
pub struct Flat {
    pub kind: Vec<K>,
    pub parent: Vec<Option<usize>>,
    pub ch: Vec<Vec<usize>>,
    pub nss: Vec<Vec<usize>>,
    pub attrs: Vec<Vec<usize>>,
    /// last walk index inside the subtree (inclusive)
    pub end: Vec<usize>,
}

impl Flat {
    pub fn new(a: &A) -> Flat {
        let mut f = Flat { kind: vec![], parent: vec![], ch: vec![], nss: vec![], attrs: vec![], end: vec![] };
        f.add(a, None);
        f
    }
    fn push(&mut self, k: K, p: Option<usize>) -> usize {
        let i = self.kind.len();
        self.kind.push(k);
        self.parent.push(p);
        self.ch.push(vec![]);
        self.nss.push(vec![]);
        self.attrs.push(vec![]);
        self.end.push(i);
        i
    }
    fn add(&mut self, a: &A, p: Option<usize>) -> usize {
        let i = self.push(a.k, p);
        for _ in &a.nss {
            let j = self.push(K::Ns, Some(i));
            self.nss[i].push(j);
        }
        for _ in &a.attrs {
            let j = self.push(K::Attr, Some(i));
            self.attrs[i].push(j);
        }
        for c in &a.ch {
            let j = self.add(c, Some(i));
            self.ch[i].push(j);
        }
        self.end[i] = self.kind.len() - 1;
        i
    }
    pub fn n(&self) -> usize {
        self.kind.len()
    }
    pub fn normal(&self, i: usize) -> bool {
        self.kind[i].normal()
    }
    /// same-category siblings of i (including i), in order
    pub fn sibs(&self, i: usize) -> Vec<usize> {
        match self.parent[i] {
            None => vec![i],
            Some(p) => match self.kind[i] {
                K::Ns => self.nss[p].clone(),
                K::Attr => self.attrs[p].clone(),
                _ => self.ch[p].clone(),
            },
        }
    }
    pub fn ancestors_or_self(&self, i: usize) -> Vec<usize> {
        let mut v = vec![i];
        let mut c = i;
        while let Some(p) = self.parent[c] {
            v.push(p);
            c = p;
        }
        v
    }
    pub fn traverse(&self, i: usize, all: bool, out: &mut Vec<(bool, usize)>) {
        out.push((true, i));
        if all {
            for &j in self.nss[i].iter().chain(self.attrs[i].iter()) {
                out.push((true, j));
                out.push((false, j));
            }
        }
        for &c in &self.ch[i] {
            self.traverse(c, all, out);
        }
        out.push((false, i));
    }
}

fn nodes_to_idx(tab: &std::collections::HashMap<Node, usize>, it: impl Iterator<Item = Node>) -> Vec<i64> {
    // (the cap stops an iterator that never ends; no result is longer than the tree)
    it.take(tab.len() * 2 + 1000).map(|n| tab.get(&n).map(|i| *i as i64).unwrap_or(-1)).collect()
}
fn ex(v: &[usize]) -> Vec<i64> {
    v.iter().map(|i| *i as i64).collect()
}
fn edges_to_idx(tab: &std::collections::HashMap<Node, usize>, it: impl Iterator<Item = NodeEdge>) -> Vec<(bool, i64)> {
    it.take(tab.len() * 4 + 1000)
        .map(|e| match e {
            NodeEdge::Start(n) => (true, tab.get(&n).map(|i| *i as i64).unwrap_or(-1)),
            NodeEdge::End(n) => (false, tab.get(&n).map(|i| *i as i64).unwrap_or(-1)),
        })
        .collect()
}
fn exe(v: &[(bool, usize)]) -> Vec<(bool, i64)> {
    v.iter().map(|(b, i)| (*b, *i as i64)).collect()
}

const AXES: [(Axis, &str); 12] = [
    (Axis::Child, "Child"),
    (Axis::Descendant, "Descendant"),
    (Axis::Parent, "Parent"),
    (Axis::Ancestor, "Ancestor"),
    (Axis::FollowingSibling, "FollowingSibling"),
    (Axis::PrecedingSibling, "PrecedingSibling"),
    (Axis::Following, "Following"),
    (Axis::Preceding, "Preceding"),
    (Axis::Attribute, "Attribute"),
    (Axis::Self_, "Self"),
    (Axis::DescendantOrSelf, "DescendantOrSelf"),
    (Axis::AncestorOrSelf, "AncestorOrSelf"),
];

pub fn eval(case: &Case) -> Vec<Fail> {
    let mut st = Stats::default();
    eval_tree(&case.tree.clone(), &mut st, true)
}

/// evaluate one tree; `full` = also the quadratic checks (child_index over all pairs)
pub fn eval_tree(a: &A, st: &mut Stats, full: bool) -> Vec<Fail> {
    let mut fails: Vec<Fail> = vec![];
    let mut xot = Xot::new();
    xot.set_text_consolidation(false);
    let mut handles = vec![];
    let root = build(&mut xot, a, &mut handles);
    xot.set_text_consolidation(true);
    let f = Flat::new(a);
    assert_eq!(f.n(), handles.len());
    let tab: std::collections::HashMap<Node, usize> = handles.iter().enumerate().map(|(i, n)| (*n, i)).collect();
    let xot = &xot;
    let n_all = f.n();

    macro_rules! chk {
        ($api:expr, $i:expr, $got:expr, $exp:expr) => {{
            let got = catch(|| $got);
            let exp = $exp;
            match got {
                Err(p) => fails.push(Fail::new(
                    format!("panic|{}|{}", $api, f.kind[$i].name()),
                    format!("{} on node #{} ({}) of {} panicked: {}", $api, $i, f.kind[$i].name(), a.show(), p),
                )),
                Ok(g) => {
                    st.evals += 1;
                    if g != exp {
                        fails.push(Fail::new(
                            format!("list|{}|{}", $api, f.kind[$i].name()),
                            format!("{} on node #{} ({}) of {}: expected {:?} got {:?}", $api, $i, f.kind[$i].name(), a.show(), exp, g),
                        ));
                    }
                }
            }
        }};
    }

    for i in 0..n_all {
        let h = handles[i];
        let normal = f.normal(i);
        let sibs = f.sibs(i);
        let pos = sibs.iter().position(|x| *x == i).unwrap();
        let anc = f.ancestors_or_self(i);
        let rooti = *anc.last().unwrap();
        debug_assert_eq!(rooti, 0);
        let _ = root;

        chk!("parent", i, xot.parent(h).map(|n| tab[&n] as i64), f.parent[i].map(|p| p as i64));
        chk!("root", i, tab.get(&xot.root(h)).map(|x| *x as i64), Some(0i64));
        chk!("children", i, nodes_to_idx(&tab, xot.children(h)), ex(&f.ch[i]));
        chk!("reverse_children", i, nodes_to_idx(&tab, xot.reverse_children(h)), {
            let mut v = f.ch[i].clone();
            v.reverse();
            ex(&v)
        });
        chk!("first_child", i, xot.first_child(h).map(|n| tab.get(&n).map(|x| *x as i64).unwrap_or(-1)), f.ch[i].first().map(|x| *x as i64));
        chk!("last_child", i, xot.last_child(h).map(|n| tab.get(&n).map(|x| *x as i64).unwrap_or(-1)), f.ch[i].last().map(|x| *x as i64));
        chk!("next_sibling", i, xot.next_sibling(h).map(|n| tab.get(&n).map(|x| *x as i64).unwrap_or(-1)), sibs.get(pos + 1).map(|x| *x as i64));
        chk!(
            "previous_sibling",
            i,
            xot.previous_sibling(h).map(|n| tab.get(&n).map(|x| *x as i64).unwrap_or(-1)),
            if pos > 0 { Some(sibs[pos - 1] as i64) } else { None }
        );
        chk!("following_siblings", i, nodes_to_idx(&tab, xot.following_siblings(h)), ex(&sibs[pos..]));
        chk!("preceding_siblings", i, nodes_to_idx(&tab, xot.preceding_siblings(h)), {
            let mut v = sibs[..=pos].to_vec();
            v.reverse();
            ex(&v)
        });
        chk!("ancestors", i, nodes_to_idx(&tab, xot.ancestors(h)), ex(&anc));
        chk!("attribute_nodes", i, nodes_to_idx(&tab, xot.attribute_nodes(h)), ex(&f.attrs[i]));
        chk!("attributes.nodes", i, nodes_to_idx(&tab, xot.attributes(h).nodes()), ex(&f.attrs[i]));
        chk!("namespaces.nodes", i, nodes_to_idx(&tab, xot.namespaces(h).nodes()), ex(&f.nss[i]));

        // document-order lists
        let desc_or_self: Vec<usize> = (i..=f.end[i]).filter(|j| f.normal(*j)).collect();
        let all_desc_or_self: Vec<usize> = (i..=f.end[i]).collect();
        let following: Vec<usize> = if normal { (f.end[i] + 1..n_all).filter(|j| f.normal(*j)).collect() } else { (i + 1..n_all).filter(|j| f.normal(*j)).collect() };
        let preceding: Vec<usize> = {
            // for attribute / namespace nodes: XPath reading = preceding of the parent
            let base = if normal { i } else { f.parent[i].unwrap_or(i) };
            let banc = f.ancestors_or_self(base);
            let mut v: Vec<usize> = (0..base).filter(|j| f.normal(*j) && !banc.contains(j)).collect();
            v.reverse();
            v
        };
        if normal {
            chk!("descendants", i, nodes_to_idx(&tab, xot.descendants(h)), ex(&desc_or_self));
            chk!("all_descendants", i, nodes_to_idx(&tab, xot.all_descendants(h)), ex(&all_desc_or_self));
        } else {
            // statement: such nodes have no descendants; whether the node itself is listed is not pinned
            let got = catch(|| nodes_to_idx(&tab, xot.descendants(h)));
            st.evals += 1;
            match got {
                Ok(g) if g.is_empty() || g == vec![i as i64] => {}
                other => fails.push(Fail::new(
                    format!("list|descendants|{}", f.kind[i].name()),
                    format!("descendants of {} node #{} in {}: {:?}", f.kind[i].name(), i, a.show(), other),
                )),
            }
            chk!("all_descendants", i, nodes_to_idx(&tab, xot.all_descendants(h)), vec![i as i64]);
        }
        chk!("following", i, nodes_to_idx(&tab, xot.following(h)), ex(&following));
        chk!("preceding", i, nodes_to_idx(&tab, xot.preceding(h)), ex(&preceding));
        if normal {
            chk!("all_following", i, nodes_to_idx(&tab, xot.all_following(h)), ex(&(f.end[i] + 1..n_all).collect::<Vec<_>>()));
        } else {
            // attribute / namespace start: everything after the parent's start tag must be there in
            // document order; whether later same-element attribute/namespace nodes are listed is not pinned
            let got = catch(|| nodes_to_idx(&tab, xot.all_following(h)));
            st.evals += 1;
            let p = f.parent[i];
            let ok = match &got {
                Ok(g) => {
                    let asc = g.windows(2).all(|w| w[0] < w[1]);
                    let must: Vec<i64> = (i + 1..n_all).filter(|j| !(f.parent[*j] == p && !f.normal(*j))).map(|j| j as i64).collect();
                    let may: Vec<i64> = (i + 1..n_all).map(|j| j as i64).collect();
                    asc && must.iter().all(|m| g.contains(m)) && g.iter().all(|x| may.contains(x))
                }
                Err(_) => false,
            };
            if !ok {
                fails.push(Fail::new(
                    format!("list|all_following|{}", f.kind[i].name()),
                    format!("all_following of {} node #{} in {}: {:?}", f.kind[i].name(), i, a.show(), got),
                ));
            }
        }

        // partition law (stated for Axis semantics)
        {
            let got = catch(|| {
                let mut v: Vec<i64> = vec![];
                v.extend(nodes_to_idx(&tab, xot.axis(Axis::Ancestor, h)));
                v.extend(nodes_to_idx(&tab, xot.axis(Axis::Descendant, h)));
                v.extend(nodes_to_idx(&tab, xot.axis(Axis::Preceding, h)));
                v.extend(nodes_to_idx(&tab, xot.axis(Axis::Following, h)));
                if normal {
                    v.push(i as i64);
                }
                v.sort();
                v
            });
            st.evals += 1;
            let exp: Vec<i64> = (0..n_all).filter(|j| f.normal(*j)).map(|j| j as i64).collect();
            if got.as_ref().ok() != Some(&exp) {
                fails.push(Fail::new(
                    format!("partition|{}", f.kind[i].name()),
                    format!("ancestor+descendant+preceding+following+self of node #{} in {}: expected {:?} got {:?}", i, a.show(), exp, got),
                ));
            }
        }

        // traversals
        if normal {
            let mut tr = vec![];
            f.traverse(i, false, &mut tr);
            let mut atr = vec![];
            f.traverse(i, true, &mut atr);
            chk!("traverse", i, edges_to_idx(&tab, xot.traverse(h)), exe(&tr));
            chk!("all_traverse", i, edges_to_idx(&tab, xot.all_traverse(h)), exe(&atr));
            let mut rtr = tr.clone();
            rtr.reverse();
            let mut ratr = atr.clone();
            ratr.reverse();
            chk!("reverse_traverse", i, edges_to_idx(&tab, xot.reverse_traverse(h)), exe(&rtr));
            chk!("reverse_all_traverse", i, edges_to_idx(&tab, xot.reverse_all_traverse(h)), exe(&ratr));
            // NodeEdge::next from Start(n): the rest of the whole-tree traversal
            let mut whole = vec![];
            f.traverse(0, false, &mut whole);
            let p0 = whole.iter().position(|e| *e == (true, i)).unwrap();
            chk!(
                "NodeEdge::next",
                i,
                {
                    let mut v = vec![];
                    let mut e = Some(NodeEdge::Start(h));
                    while let Some(x) = e {
                        v.push(x);
                        if v.len() > 100_000 {
                            break;
                        }
                        e = x.next(xot);
                    }
                    edges_to_idx(&tab, v.into_iter())
                },
                exe(&whole[p0..])
            );
            let p1 = whole.iter().position(|e| *e == (false, i)).unwrap();
            chk!(
                "NodeEdge::previous",
                i,
                {
                    let mut v = vec![];
                    let mut e = Some(NodeEdge::End(h));
                    while let Some(x) = e {
                        v.push(x);
                        if v.len() > 100_000 {
                            break;
                        }
                        e = x.previous(xot);
                    }
                    edges_to_idx(&tab, v.into_iter())
                },
                {
                    let mut w = whole[..=p1].to_vec();
                    w.reverse();
                    exe(&w)
                }
            );
            // level order
            chk!(
                "level_order",
                i,
                xot.level_order(h).take(100_000).map(|l| match l {
                    LevelOrder::Node(n) => tab.get(&n).map(|x| *x as i64).unwrap_or(-1),
                    LevelOrder::End => -2,
                }).collect::<Vec<i64>>(),
                {
                    let mut out: Vec<i64> = vec![];
                    let mut q = std::collections::VecDeque::new();
                    q.push_back(i);
                    let mut last: Option<usize> = None;
                    while let Some(x) = q.pop_front() {
                        if let Some(l) = last {
                            if f.parent[l] != f.parent[x] {
                                out.push(-2);
                            }
                        }
                        out.push(x as i64);
                        last = Some(x);
                        for c in &f.ch[x] {
                            q.push_back(*c);
                        }
                    }
                    out.push(-2);
                    out
                }
            );
            // reverse preorder: this node, then every ordinary node before it in document order, backwards
            chk!("reverse_preorder", i, nodes_to_idx(&tab, xot.reverse_preorder(h)), {
                let mut v: Vec<usize> = (0..=i).filter(|j| f.normal(*j)).collect();
                v.reverse();
                ex(&v)
            });
        }
        chk!("all_reverse_preorder", i, nodes_to_idx(&tab, xot.all_reverse_preorder(h)), {
            let mut v: Vec<usize> = (0..=i).collect();
            v.reverse();
            ex(&v)
        });

        // predicates derived from the parent relation
        {
            let par_is_doc = f.parent[i].map(|p| f.kind[p] == K::Doc).unwrap_or(false);
            chk!("has_document_parent", i, xot.has_document_parent(h), par_is_doc);
            chk!("is_document_element", i, xot.is_document_element(h), par_is_doc && f.kind[i] == K::Elem);
            // text_content_str: "" without children, the text of a single text child, otherwise nothing
            let exp_tc: Option<bool> = match f.ch[i].as_slice() {
                [] => Some(false),
                [c] if f.kind[*c] == K::Text => Some(true),
                _ => None,
            };
            let got_tc = xot.text_content_str(h).map(|t| !t.is_empty());
            chk!("text_content_str", i, got_tc, exp_tc);
            chk!("text_content", i, xot.text_content(h).is_some(), exp_tc == Some(true));
        }

        // top_element / document_element
        if f.kind[0] == K::Doc {
            let de = f.ch[0].iter().copied().find(|c| f.kind[*c] == K::Elem);
            if i == 0 {
                chk!("document_element", i, xot.document_element(h).ok().map(|n| tab[&n] as i64), de.map(|x| x as i64));
            }
            // top element of a node below the document: the top-level ancestor-or-self element if any
            let top = anc.iter().copied().filter(|j| f.kind[*j] == K::Elem).last();
            if let Some(t) = top {
                chk!("top_element", i, tab.get(&xot.top_element(h)).map(|x| *x as i64), Some(t as i64));
            } else if let Some(d) = de {
                // the document node itself, or a comment / PI / text beside the top-level elements: "given node
                // anywhere in a tree ... in an XML document this is the document element"
                chk!(if i == 0 { "top_element" } else { "top_element(beside-the-document-element)" }, i, tab.get(&xot.top_element(h)).map(|x| *x as i64), Some(d as i64));
            } else {
                // no element anywhere: there is no element to return, but the call must come back
                chk!("top_element(no-element-in-document)", i, xot.top_element(h) == xot.top_element(h), true);
            }
        } else {
            let top = anc.iter().copied().filter(|j| f.kind[*j] == K::Elem).last();
            if let Some(t) = top {
                chk!("top_element", i, tab.get(&xot.top_element(h)).map(|x| *x as i64), Some(t as i64));
            }
            if i == 0 {
                chk!("document_element(non-document)", i, xot.document_element(h).is_err(), true);
            }
        }

        // axes
        for (ax, name) in AXES.iter() {
            let exp: Vec<usize> = match ax {
                Axis::Child => f.ch[i].clone(),
                Axis::Descendant => {
                    if normal {
                        desc_or_self[1..].to_vec()
                    } else {
                        vec![]
                    }
                }
                Axis::Parent => f.parent[i].into_iter().collect(),
                Axis::Ancestor => anc[1..].to_vec(),
                Axis::FollowingSibling => {
                    if normal {
                        sibs[pos + 1..].to_vec()
                    } else {
                        continue_axis_lenient(&mut fails, st, xot, &tab, &f, a, i, h, *ax, name);
                        continue;
                    }
                }
                Axis::PrecedingSibling => {
                    if normal {
                        let mut v = sibs[..pos].to_vec();
                        v.reverse();
                        v
                    } else {
                        continue_axis_lenient(&mut fails, st, xot, &tab, &f, a, i, h, *ax, name);
                        continue;
                    }
                }
                Axis::Following => following.clone(),
                Axis::Preceding => preceding.clone(),
                Axis::Attribute => f.attrs[i].clone(),
                Axis::Self_ => vec![i],
                Axis::DescendantOrSelf => {
                    if normal {
                        desc_or_self.clone()
                    } else {
                        // XPath: descendant-or-self of an attribute / namespace node is that node (it has no
                        // descendants), just as self and ancestor-or-self contain it
                        vec![i]
                    }
                }
                Axis::AncestorOrSelf => anc.clone(),
            };
            let api = format!("axis:{}", name);
            chk!(api, i, nodes_to_idx(&tab, xot.axis(*ax, h)), ex(&exp));
        }

        if full {
            for p in 0..n_all {
                let e = if f.parent[i] == Some(p) && normal { f.ch[p].iter().position(|x| *x == i) } else { None };
                chk!("child_index", i, xot.child_index(handles[p], h), e);
            }
        }
    }
    fails
}

/// XPath gives attribute / namespace nodes no siblings on the sibling axes; xot documents
/// same-kind siblings for following_/preceding_siblings. For the Axis values accept either reading.
#[allow(clippy::too_many_arguments)]
fn continue_axis_lenient(
    fails: &mut Vec<Fail>,
    st: &mut Stats,
    xot: &Xot,
    tab: &std::collections::HashMap<Node, usize>,
    f: &Flat,
    a: &A,
    i: usize,
    h: Node,
    ax: Axis,
    name: &str,
) {
    let sibs = f.sibs(i);
    let pos = sibs.iter().position(|x| *x == i).unwrap();
    let same: Vec<i64> = if ax == Axis::FollowingSibling {
        ex(&sibs[pos + 1..])
    } else {
        let mut v = sibs[..pos].to_vec();
        v.reverse();
        ex(&v)
    };
    let got = catch(|| nodes_to_idx(tab, xot.axis(ax, h)));
    st.evals += 1;
    match got {
        Ok(g) if g.is_empty() || g == same => {}
        other => fails.push(Fail::new(
            format!("list|axis:{}|{}", name, f.kind[i].name()),
            format!("axis {} on {} node #{} of {}: {:?}", name, f.kind[i].name(), i, a.show(), other),
        )),
    }
}

pub fn alphabet(tier: Tier) -> (TreeAlphabet, usize) {
    let plain = A::el("", "a");
    let deco1 = A::el("urn:x", "b").decl("p", "urn:x").attr("", "k", "1");
    let deco2 = A::el("", "c").decl("", "urn:y").decl("q", "urn:x").attr("", "k", "1").attr("urn:x", "l", "2");
    let al = TreeAlphabet {
        elements: vec![plain, deco1, deco2],
        leaves: vec![A::text("t"), A::comment("c"), A::pi("pi", Some("d"))],
        adjacent_text: true,
    };
    (al, 5)
}

pub fn cases(tier: Tier) -> Vec<A> {
    let (al, n) = alphabet(tier);
    let mut out = vec![];
    // unattached trees of every root kind
    out.extend(trees_upto(&al, n));
    // unattached attribute / namespace nodes
    out.push(A::attr_node("", "k", "v"));
    out.push(A::ns_node("p", "urn:x"));
    // documents and fragment-style documents: document + forest of n-1 nodes
    for k in 0..n {
        for f in forests(&al, k) {
            out.push(A::doc(f));
        }
    }
    // thorough: one more level with the plain alphabet only (shape coverage)
    if tier == Tier::Thorough {
        let al2 = TreeAlphabet { elements: vec![A::el("", "a"), A::el("urn:x", "b").decl("p", "urn:x").attr("", "k", "1")], leaves: vec![A::text("t")], adjacent_text: true };
        for k in 6..=8 {
            for f in forests(&al2, k - 1) {
                out.push(A::doc(f));
            }
        }
    }
    out
}

fn big_instances() -> Vec<(String, A)> {
    let mut out = vec![];
    // chain of depth 2000
    let mut chain = A::el("", "a");
    for _ in 0..2000 {
        chain = A::el("", "a").child(chain);
    }
    out.push(("chain2000".to_string(), A::doc(vec![chain])));
    let mut fan = A::el("", "a");
    for i in 0..2000 {
        fan.ch.push(if i % 2 == 0 { A::el("", "b") } else { A::text("t") });
    }
    out.push(("fan2000".to_string(), A::doc(vec![fan])));
    let mut at = A::el("", "a");
    for i in 0..2000 {
        at.attrs.push(A::attr_node("", &format!("k{}", i), "v"));
    }
    at.ch.push(A::el("", "b"));
    out.push(("attrs2000".to_string(), A::doc(vec![at])));
    let mut comb = A::el("", "a");
    for _ in 0..300 {
        comb = A::el("", "a").attr("", "k", "1").child(A::text("t")).child(comb).child(A::comment("c"));
    }
    out.push(("comb300".to_string(), A::doc(vec![comb])));
    out
}

pub fn run(tier: Tier) -> i32 {
    let ctx = Ctx::new("C07", tier, "exploration");
    let trees = cases(tier);
    let mut stats = par_slice(&ctx, &trees, |a, st| {
        let fails = eval_tree(a, st, true);
        st.bump("trees");
        st.add("nodes", a.size() as u64);
        st.outcome(&a.canon());
        st.sample(|| json!({"tree": a.show(), "nodes": a.size()}));
        for f in fails {
            st.fail(&Case { tree: a.clone() }, f);
        }
    });
    // large instances (deep chain / wide fan / many attributes / comb): spot the iterators that recurse or go quadratic
    let big = big_instances();
    let handle = std::thread::Builder::new().stack_size(256 << 20).spawn(move || {
        let mut st = Stats::default();
        for (name, a) in &big {
            let t0 = std::time::Instant::now();
            // only nodes near both ends and the middle: sample of positions, all APIs, no quadratic child_index
            let fails = eval_big(a, &mut st);
            st.bump("big_instances");
            for f in fails {
                st.fail(&json!({"big": name}), f);
            }
            if t0.elapsed().as_secs_f64() > 60.0 {
                st.fail(&json!({"big": name}), Fail::new(format!("slow|{}", name), format!("{} took {:?}", name, t0.elapsed())));
            }
        }
        st
    });
    match handle.unwrap().join() {
        Ok(st) => stats = stats.merge(st),
        Err(_) => {
            eprintln!("MACHINERY: big-instance thread died");
            return 2;
        }
    }
    // huge instances (a fan of 200 000 children, 20 000 attributes on one element), each in a child process: an
    // iterator that recurses once per sibling or per skipped node ends the process, not just the evaluation
    {
        let exe = std::env::current_exe().expect("current_exe");
        let mut st = Stats::default();
        for name in HUGE {
            let t0 = std::time::Instant::now();
            let out = std::process::Command::new(&exe).args(["C07HUGE", name]).output();
            st.evals += 1;
            st.bump("huge_instances");
            match out {
                Err(e) => {
                    eprintln!("MACHINERY: cannot start the child process for {}: {}", name, e);
                    return 2;
                }
                Ok(o) => {
                    let text = String::from_utf8_lossy(&o.stdout).to_string();
                    match o.status.code() {
                        Some(0) => {}
                        Some(3) => {
                            for l in text.lines().filter_map(|l| l.strip_prefix("HUGE-FAIL ")) {
                                let (sig, d) = l.split_once('\t').unwrap_or((l, ""));
                                st.fail(&json!({"huge": name}), Fail::new(format!("huge|{}", sig), format!("{}: {}", name, d)));
                            }
                        }
                        Some(2) => {
                            eprintln!("MACHINERY: child for {} refused its arguments", name);
                            return 2;
                        }
                        other => {
                            let last = text.lines().filter_map(|l| l.strip_prefix("API ")).last().unwrap_or("(building the tree)").to_string();
                            let err = String::from_utf8_lossy(&o.stderr);
                            let why = if err.contains("overflowed its stack") { "stack-overflow" } else { "process-died" };
                            st.fail(
                                &json!({"huge": name}),
                                Fail::new(format!("huge|{}|{}|{}", why, name.trim_end_matches(|c: char| c.is_ascii_digit()), last), format!("{}: the process evaluating it ended with {:?} during {} ({})", name, other, last, err.lines().last().unwrap_or(""))),
                            );
                        }
                    }
                }
            }
            if t0.elapsed().as_secs_f64() > 120.0 {
                st.fail(&json!({"huge": name}), Fail::new(format!("slow|{}", name), format!("{} took {:?}", name, t0.elapsed())));
            }
        }
        stats = stats.merge(st);
    }
    if let Err(e) = require_nonzero(&stats, &["trees", "big_instances", "huge_instances"]) {
        eprintln!("MACHINERY: {}", e);
        return 2;
    }
    let (_, n) = alphabet(tier);
    let cov = json!({
        "rule": format!("every labelled ordered tree with <= {} ordinary nodes over 3 element prototypes (plain; 1 namespace node + 1 attribute; 2 namespace nodes + 2 attributes) and leaves text/comment/PI, as unattached tree and under a document node (fragment-style forests included), plus detached attribute / namespace nodes; plus large instances (chain 2000, fan 2000, 2000 attributes, comb 300) and, each in a child process with an 8 MiB stack, huge ones (fan of 200 000 children, 20 000 attributes on one element) on the whole-tree laws; every node of every tree x every traversal API and all 12 Axis values; distinct = distinct canonical trees", n),
        "bounds": {"max_ordinary_nodes": n, "thorough_extra": "documents with 6..8 ordinary nodes over 2 element prototypes + text"},
        "explanation": "each API result is compared with the list computed on the abstract tree (walk order indices)",
    });
    ctx.finish(stats, cov, vec!["tree construction through the creation API is trusted to produce the abstract tree (cross-checked by read-back in C04/C20)".into()])
}

/// in the child process of a huge instance: name the API that runs next (a stack overflow ends the process, and the
/// parent reports the last name it saw)
fn progress(api: &str) {
    if std::env::var_os("XOTMC_HUGE_CHILD").is_some() {
        println!("API {}", api);
    }
}

fn huge_instance(name: &str) -> Option<A> {
    let n: usize = name.trim_start_matches(|c: char| c.is_ascii_alphabetic()).parse().ok()?;
    if name.starts_with("fan") {
        let mut fan = A::el("", "a");
        for i in 0..n {
            fan.ch.push(if i % 2 == 0 { A::el("", "b") } else { A::comment("c") });
        }
        Some(A::doc(vec![fan]))
    } else if name.starts_with("attrs") {
        let mut at = A::el("", "a");
        for i in 0..n {
            at.attrs.push(A::attr_node("", &format!("k{}", i), "v"));
        }
        at.ch.push(A::el("", "b"));
        Some(A::doc(vec![A::el("", "r").child(A::el("", "first")).child(at).child(A::el("", "last"))]))
    } else {
        None
    }
}

/// `xotmc C07HUGE <name>`: one huge instance in a process of its own, on a thread with the 8 MiB stack a main thread
/// usually has. Exit 0 = all laws held, 3 = failures (printed as HUGE-FAIL lines); anything else is the death of
/// the process (stack overflow in a recursive iterator), which the parent turns into a failure.
pub fn huge_child(name: &str) -> i32 {
    let Some(a) = huge_instance(name) else {
        eprintln!("unknown huge instance {}", name);
        return 2;
    };
    std::env::set_var("XOTMC_HUGE_CHILD", "1");
    let h = std::thread::Builder::new().stack_size(8 << 20).spawn(move || {
        let mut st = Stats::default();
        eval_big(&a, &mut st)
    });
    match h.unwrap().join() {
        Ok(fails) => {
            for f in &fails {
                println!("HUGE-FAIL {}\t{}", f.sig, f.detail);
            }
            if fails.is_empty() {
                0
            } else {
                3
            }
        }
        Err(_) => 4,
    }
}

pub const HUGE: [&str; 2] = ["fan200000", "attrs20000"];

/// reduced evaluation for the large instances: full API set, on a sample of nodes
fn eval_big(a: &A, st: &mut Stats) -> Vec<Fail> {
    // evaluate everything only on a thinned copy of the node set by building the full tree and
    // running eval_tree's checks for selected nodes would need refactoring; instead run the linear-cost
    // whole-tree laws here.
    let mut fails = vec![];
    let mut xot = Xot::new();
    let mut handles = vec![];
    let root = build(&mut xot, a, &mut handles);
    let f = Flat::new(a);
    let tab: std::collections::HashMap<Node, usize> = handles.iter().enumerate().map(|(i, n)| (*n, i)).collect();
    let n_all = f.n();
    let normal_all: Vec<i64> = (0..n_all).filter(|j| f.normal(*j)).map(|j| j as i64).collect();
    let all: Vec<i64> = (0..n_all as i64).collect();
    let mut chk = |api: &str, got: Result<Vec<i64>, String>, exp: Vec<i64>| {
        st.evals += 1;
        if got.as_ref().ok() != Some(&exp) {
            let g = got.map(|g| format!("len {}", g.len()));
            fails.push(Fail::new(format!("big|{}", api), format!("{}: expected len {} got {:?}", api, exp.len(), g)));
        }
    };
    progress("descendants");
    chk("descendants", catch(|| nodes_to_idx(&tab, xot.descendants(root))), normal_all.clone());
    chk("all_descendants", catch(|| nodes_to_idx(&tab, xot.all_descendants(root))), all.clone());
    let last = handles[n_all - 1];
    let lastn = *handles.iter().enumerate().filter(|(i, _)| f.normal(*i)).map(|(_, h)| h).last().unwrap();
    progress("all_reverse_preorder / reverse_preorder");
    chk("all_reverse_preorder", catch(|| nodes_to_idx(&tab, xot.all_reverse_preorder(last))), all.iter().rev().cloned().collect());
    let lastn_i = tab[&lastn];
    chk(
        "reverse_preorder",
        catch(|| nodes_to_idx(&tab, xot.reverse_preorder(lastn))),
        normal_all.iter().rev().cloned().filter(|x| *x <= lastn_i as i64).collect(),
    );
    progress("following");
    chk("following(root elem start)", catch(|| nodes_to_idx(&tab, xot.following(handles[0]))), vec![]);
    // following of the first leaf-most node, preceding of the last
    let first_leaf = (0..n_all).find(|i| f.normal(*i) && f.ch[*i].is_empty()).unwrap();
    let fol: Vec<i64> = (f.end[first_leaf] + 1..n_all).filter(|j| f.normal(*j)).map(|j| j as i64).collect();
    chk("following(first leaf)", catch(|| nodes_to_idx(&tab, xot.following(handles[first_leaf]))), fol);
    let anc = f.ancestors_or_self(lastn_i);
    let prec: Vec<i64> = (0..lastn_i).rev().filter(|j| f.normal(*j) && !anc.contains(j)).map(|j| j as i64).collect();
    progress("preceding(last)");
    chk("preceding(last)", catch(|| nodes_to_idx(&tab, xot.preceding(lastn))), prec);
    progress("ancestors(last)");
    chk("ancestors(last)", catch(|| nodes_to_idx(&tab, xot.ancestors(lastn))), anc.iter().map(|x| *x as i64).collect());
    progress("traverse / NodeEdge::next / level_order");
    let mut tr = vec![];
    f.traverse(0, false, &mut tr);
    let got = catch(|| edges_to_idx(&tab, xot.traverse(root)));
    st.evals += 1;
    if got.as_ref().ok() != Some(&exe(&tr)) {
        fails.push(Fail::new("big|traverse", "traverse differs on large instance"));
    }
    let got = catch(|| {
        let mut v = vec![];
        let mut e = Some(NodeEdge::Start(root));
        while let Some(x) = e {
            v.push(x);
            e = x.next(&xot);
        }
        edges_to_idx(&tab, v.into_iter())
    });
    st.evals += 1;
    if got.as_ref().ok() != Some(&exe(&tr)) {
        fails.push(Fail::new("big|NodeEdge::next", "NodeEdge::next differs on large instance"));
    }
    let got = catch(|| xot.level_order(root).filter(|l| matches!(l, LevelOrder::Node(_))).count());
    st.evals += 1;
    if got.as_ref().ok() != Some(&normal_all.len()) {
        fails.push(Fail::new("big|level_order", format!("level_order count {:?}", got)));
    }
    fails
}
