//! C13 deep_equal is canonical-form equivalence; its variants relax it as documented.
//! E-TREE pairs / triples: all ordered pairs of all small subtrees over an alphabet in which every
//! single-feature difference exists.
use crate::atree::*;
use crate::common::*;
use crate::gen::*;
use crate::nsscope::{X, Y};
use serde::{Deserialize, Serialize};
use serde_json::json;
use xot::{NameId, Node, Xot};

#[derive(Serialize, Deserialize, Clone)]
pub struct Case {
    pub a: A,
    pub b: A,
    #[serde(default)]
    pub c: Option<A>,
}

fn elements_full() -> Vec<A> {
    vec![
        A::el("", "a"),
        A::el("", "b"),
        A::el(X, "a").decl("p", X),
        A::el(X, "a").decl("q", X),
        A::el(X, "a"),
        A::el(Y, "a").decl("p", Y),
        A::el("", "a").attr("", "k", "1"),
        A::el("", "a").attr("", "k", "2"),
        A::el("", "a").attr("", "k", "1").attr("", "l", "1"),
        A::el("", "a").attr("", "l", "1").attr("", "k", "1"),
        A::el("", "a").attr(X, "k", "1"),
        A::el("", "a").attr("", "k", "A"),
        A::el("", "a").attr("", "k", "a"),
    ]
}
fn leaves_full() -> Vec<A> {
    vec![
        A::text("t"),
        A::text("u"),
        A::text("T"),
        A::comment("c"),
        A::comment("d"),
        A::pi("pi", None),
        A::pi("pi", Some("d")),
        A::pi("pi", Some("D")),
        A::pi("po", None),
        A::pi("pi", Some("")),
    ]
}

pub fn subtrees(tier: Tier) -> Vec<A> {
    let full = TreeAlphabet { elements: elements_full(), leaves: leaves_full(), adjacent_text: true };
    let mut out = trees_upto(&full, 2);
    let ef = elements_full();
    let lf = leaves_full();
    let medium = TreeAlphabet {
        elements: vec![ef[0].clone(), ef[1].clone(), ef[2].clone(), ef[6].clone(), ef[7].clone()],
        leaves: vec![lf[0].clone(), lf[1].clone(), lf[3].clone(), lf[5].clone(), lf[6].clone()],
        adjacent_text: true,
    };
    match tier {
        Tier::Quick => {
            for t in trees_upto(&medium, 3) {
                if t.normal_size() == 3 {
                    out.push(t);
                }
            }
        }
        Tier::Thorough => {
            for t in trees_upto(&full, 3) {
                if t.normal_size() == 3 {
                    out.push(t);
                }
            }
        }
    }
    // a few documents
    out.push(A::doc(vec![]));
    out.push(A::doc(vec![A::el("", "a")]));
    out.push(A::doc(vec![A::comment("c"), A::el("", "a")]));
    out.push(A::doc(vec![A::el("", "a"), A::text("t")]));
    // detached attribute / namespace nodes
    out.push(A::attr_node("", "k", "1"));
    out.push(A::attr_node("", "k", "2"));
    out.push(A::attr_node(X, "k", "1"));
    out.push(A::ns_node("p", X));
    out.push(A::ns_node("q", X));
    out
}

#[derive(Clone, Copy, PartialEq, Eq)]
enum Fold {
    Exact,
    AsciiCase,
    AlwaysTrue,
}
impl Fold {
    fn apply(self, s: &str) -> String {
        match self {
            Fold::Exact => s.to_string(),
            Fold::AsciiCase => s.to_ascii_lowercase(),
            Fold::AlwaysTrue => String::new(),
        }
    }
    fn cmp(self, a: &str, b: &str) -> bool {
        self.apply(a) == self.apply(b)
    }
    fn name(self) -> &'static str {
        match self {
            Fold::Exact => "exact",
            Fold::AsciiCase => "ascii-case-insensitive",
            Fold::AlwaysTrue => "always-true",
        }
    }
}

/// canonical form: prefixes / declarations / attribute order erased; children failing `keep` dropped;
/// text, attribute values and PI data folded (comments are compared exactly)
fn canon_f(a: &A, keep: &dyn Fn(K) -> bool, fold: Fold) -> String {
    let mut s = String::new();
    canon_f_into(a, keep, fold, &mut s);
    s
}
fn canon_f_into(a: &A, keep: &dyn Fn(K) -> bool, fold: Fold, s: &mut String) {
    use std::fmt::Write;
    match a.k {
        K::Doc => s.push('D'),
        K::Elem => {
            let _ = write!(s, "E{{{}}}{}", a.ns, a.name);
            let mut at: Vec<String> = a.attrs.iter().map(|x| format!("{{{}}}{}={:?}", x.ns, x.name, fold.apply(x.val.as_deref().unwrap_or("")))).collect();
            at.sort();
            let _ = write!(s, "({})", at.join(","));
        }
        K::Text => {
            let _ = write!(s, "T{:?}", fold.apply(a.val.as_deref().unwrap_or("")));
        }
        K::Comment => {
            let _ = write!(s, "C{:?}", a.val.as_deref().unwrap_or(""));
        }
        K::Pi => {
            // the content of a processing instruction is a string; empty data and no data are the same content
            // (a supplied comparison is only consulted when both have data: absent vs present stays a difference)
            let _ = write!(s, "P{}{:?}", a.name, a.val.as_deref().filter(|d| !d.is_empty()).map(|d| fold.apply(d)));
        }
        K::Attr => {
            let _ = write!(s, "@{{{}}}{}={:?}", a.ns, a.name, fold.apply(a.val.as_deref().unwrap_or("")));
        }
        K::Ns => {
            let _ = write!(s, "N{}={}", a.name, a.ns);
        }
    }
    if matches!(a.k, K::Doc | K::Elem) {
        s.push('[');
        for c in &a.ch {
            if keep(c.k) {
                canon_f_into(c, keep, fold, s);
            }
        }
        s.push(']');
    }
}

fn shallow_model(a: &A, b: &A, ignore: &[(&str, &str)]) -> bool {
    if a.k != b.k {
        return false;
    }
    match a.k {
        K::Elem => {
            if a.ns != b.ns || a.name != b.name {
                return false;
            }
            let f = |x: &A| {
                let mut v: Vec<(String, String, String)> = x
                    .attrs
                    .iter()
                    .filter(|at| !ignore.iter().any(|(ns, n)| *ns == at.ns && *n == at.name))
                    .map(|at| (at.ns.clone(), at.name.clone(), at.val.clone().unwrap_or_default()))
                    .collect();
                v.sort();
                v
            };
            f(a) == f(b)
        }
        K::Doc => true,
        K::Pi => a.name == b.name && a.val.as_deref().unwrap_or("") == b.val.as_deref().unwrap_or(""),
        _ => a.ns == b.ns && a.name == b.name && a.val == b.val,
    }
}

struct World {
    xot: Xot,
    nodes: Vec<Node>,
    k: NameId,
    l: NameId,
    z: NameId,
}

fn build_world(trees: &[A]) -> World {
    let mut xot = Xot::new();
    xot.set_text_consolidation(false);
    let nodes = trees.iter().map(|t| build1(&mut xot, t)).collect();
    let k = xot.add_name("k");
    let l = xot.add_name("l");
    let z = xot.add_name("z");
    World { xot, nodes, k, l, z }
}

const FILTERS: [(&str, fn(K) -> bool); 4] = [
    ("all", |_| true),
    ("no-comments", |k| k != K::Comment),
    ("no-pis", |k| k != K::Pi),
    ("elements+text", |k| matches!(k, K::Elem | K::Text)),
];
const FOLDS: [Fold; 3] = [Fold::Exact, Fold::AsciiCase, Fold::AlwaysTrue];

fn ignore_lists() -> Vec<Vec<usize>> {
    // all sequences of length <= 3 over {k, l, z} including repeats: 1 + 3 + 9 + 27 = 40
    (0..strings_count(3, 3)).map(|i| nth_string(&[0usize, 1, 2], 3, i)).collect()
}

fn eval_pair(w: &World, ta: &A, tb: &A, na: Node, nb: Node, st: &mut Stats, fails: &mut Vec<Fail>) {
    let xot = &w.xot;
    // two namespace nodes that differ only in their prefix: the statement ("irrespective of prefixes")
    // does not say whether they are equal; no expectation
    if ta.k == K::Ns && tb.k == K::Ns && ta.ns == tb.ns && ta.name != tb.name {
        return;
    }
    let all = |_: K| true;
    let pair = || format!("a={} b={}", ta.show(), tb.show());
    // 1. deep_equal
    let exp = canon_f(ta, &all, Fold::Exact) == canon_f(tb, &all, Fold::Exact);
    match catch(|| xot.deep_equal(na, nb)) {
        Ok(g) => {
            st.evals += 1;
            if g != exp {
                let d = diff_class(&ta.sorted_attrs().without_decls(), &tb.sorted_attrs().without_decls()).unwrap_or_else(|| "canonically-equal".into());
                fails.push(Fail::new(format!("deep_equal|expected-{}|{}", exp, strip_vals(&d)), format!("deep_equal {} -> {} ({})", pair(), g, d)));
            }
            if exp {
                st.bump("deep_equal_true");
            }
        }
        Err(p) => fails.push(Fail::new(format!("panic|deep_equal|{}", panic_class(&p)), pair())),
    }
    // 2. deep_equal_children
    let expc = {
        let ca: Vec<String> = ta.ch.iter().map(|c| canon_f(c, &all, Fold::Exact)).collect();
        let cb: Vec<String> = tb.ch.iter().map(|c| canon_f(c, &all, Fold::Exact)).collect();
        ca == cb
    };
    match catch(|| xot.deep_equal_children(na, nb)) {
        Ok(g) => {
            st.evals += 1;
            if g != expc {
                fails.push(Fail::new(format!("deep_equal_children|expected-{}", expc), format!("deep_equal_children {} -> {}", pair(), g)));
            }
        }
        Err(p) => fails.push(Fail::new(format!("panic|deep_equal_children|{}", panic_class(&p)), pair())),
    }
    // 3. deep_equal_xpath with each comparison
    for fold in FOLDS {
        let keep = |k: K| matches!(k, K::Elem | K::Text);
        let both_containers = matches!((ta.k, tb.k), (K::Elem, K::Elem) | (K::Doc, K::Doc));
        let exp = if both_containers { canon_f(ta, &keep, fold) == canon_f(tb, &keep, fold) } else { canon_f(ta, &all, fold) == canon_f(tb, &all, fold) };
        // comments are compared exactly by the canonical form; the statement does not say whether
        // the supplied comparison applies to a top-level comment or PI data: accept both readings there
        let ambiguous = !both_containers && ta.k == tb.k && matches!(ta.k, K::Comment | K::Pi) && fold != Fold::Exact;
        match catch(|| xot.deep_equal_xpath(na, nb, |x, y| fold.cmp(x, y))) {
            Ok(g) => {
                st.evals += 1;
                if g != exp && !ambiguous {
                    fails.push(Fail::new(format!("deep_equal_xpath|{}|expected-{}|{}-{}", fold.name(), exp, ta.k.name(), tb.k.name()), format!("deep_equal_xpath {} -> {}", pair(), g)));
                }
            }
            Err(p) => fails.push(Fail::new(format!("panic|deep_equal_xpath|{}", panic_class(&p)), pair())),
        }
    }
    // 4. advanced_deep_equal with leaf filters and comparisons (roots must pass the filter)
    for (fname, keep) in FILTERS {
        if !keep(ta.k) || !keep(tb.k) {
            continue;
        }
        for fold in FOLDS {
            let exp = canon_f(ta, &keep, fold) == canon_f(tb, &keep, fold);
            // PI data under a non-exact comparison: implementation compares data with the comparison; fine, canon_f folds it
            match catch(|| xot.advanced_deep_equal(na, nb, |n| keep(kind_of(xot, n)), |x, y| fold.cmp(x, y))) {
                Ok(g) => {
                    st.evals += 1;
                    if g != exp {
                        fails.push(Fail::new(format!("advanced_deep_equal|{}|{}|expected-{}", fname, fold.name(), exp), format!("advanced_deep_equal {} -> {}", pair(), g)));
                    }
                }
                Err(p) => fails.push(Fail::new(format!("panic|advanced_deep_equal|{}", panic_class(&p)), pair())),
            }
        }
    }
    // 5. shallow_equal
    let exps = shallow_model(ta, tb, &[]);
    match catch(|| xot.shallow_equal(na, nb)) {
        Ok(g) => {
            st.evals += 1;
            if g != exps {
                fails.push(Fail::new(format!("shallow_equal|expected-{}|{}", exps, ta.k.name()), format!("shallow_equal {} -> {}", pair(), g)));
            }
        }
        Err(p) => fails.push(Fail::new(format!("panic|shallow_equal|{}", panic_class(&p)), pair())),
    }
}

fn strip_vals(d: &str) -> String {
    d.split(':').next().unwrap_or(d).to_string()
}

fn eval_ignore(w: &World, ta: &A, tb: &A, na: Node, nb: Node, st: &mut Stats, fails: &mut Vec<Fail>) {
    let ids = [w.k, w.l, w.z];
    let names = [("", "k"), ("", "l"), ("", "z")];
    for list in ignore_lists() {
        let idl: Vec<NameId> = list.iter().map(|i| ids[*i]).collect();
        let nml: Vec<(&str, &str)> = list.iter().map(|i| names[*i]).collect();
        let exp = shallow_model(ta, tb, &nml);
        let repeated = {
            let mut s = list.clone();
            s.sort();
            s.windows(2).any(|w| w[0] == w[1])
        };
        match catch(|| w.xot.shallow_equal_ignore_attributes(na, nb, &idl)) {
            Ok(g) => {
                st.evals += 1;
                if g != exp {
                    fails.push(Fail::new(
                        format!("shallow_equal_ignore_attributes|expected-{}|{}", exp, if repeated { "repeated-ignore-name" } else { "plain-list" }),
                        format!("shallow_equal_ignore_attributes a={} b={} ignore={:?} -> {}", ta.show(), tb.show(), nml, g),
                    ));
                }
            }
            Err(p) => fails.push(Fail::new(
                format!("panic|shallow_equal_ignore_attributes|{}|{}", if repeated { "repeated-ignore-name" } else { "plain-list" }, panic_class(&p)),
                format!("a={} b={} ignore={:?}: {}", ta.show(), tb.show(), nml, p),
            )),
        }
    }
}

pub fn eval(case: &Case) -> Vec<Fail> {
    let mut trees = vec![case.a.clone(), case.b.clone()];
    if let Some(c) = &case.c {
        trees.push(c.clone());
    }
    let w = build_world(&trees);
    let mut st = Stats::default();
    let mut fails = vec![];
    eval_pair(&w, &trees[0], &trees[1], w.nodes[0], w.nodes[1], &mut st, &mut fails);
    eval_ignore(&w, &trees[0], &trees[1], w.nodes[0], w.nodes[1], &mut st, &mut fails);
    if trees.len() == 3 {
        eval_triple(&w, &trees, [0, 1, 2], &mut st, &mut fails);
    }
    fails
}

fn eval_triple(w: &World, trees: &[A], idx: [usize; 3], st: &mut Stats, fails: &mut Vec<Fail>) {
    let [i, j, k] = idx;
    let ab = w.xot.deep_equal(w.nodes[i], w.nodes[j]);
    let bc = w.xot.deep_equal(w.nodes[j], w.nodes[k]);
    st.evals += 1;
    if ab && bc && !w.xot.deep_equal(w.nodes[i], w.nodes[k]) {
        fails.push(Fail::new("deep_equal|not-transitive", format!("{} = {} = {} but first != third", trees[i].show(), trees[j].show(), trees[k].show())));
    }
}

pub fn run(tier: Tier) -> i32 {
    let ctx = Ctx::new("C13", tier, "exploration");
    let trees = subtrees(tier);
    let n = trees.len() as u64;
    let w = build_world(&trees);
    // string_value + reflexivity on all of S
    let mut stats = par_range(&ctx, n, |i, st| {
        let t = &trees[i as usize];
        let nd = w.nodes[i as usize];
        st.evals += 1;
        let sv = catch(|| w.xot.string_value(nd));
        if sv.as_ref().ok() != Some(&t.string_value()) {
            st.fail(&Case { a: t.clone(), b: t.clone(), c: None }, Fail::new(format!("string_value|{}", t.k.name()), format!("string_value of {}: expected {:?} got {:?}", t.show(), t.string_value(), sv)));
        }
        st.bump("string_values");
    });
    // all ordered pairs
    stats = stats.merge(par_range(&ctx, n * n, |idx, st| {
        let (i, j) = ((idx / n) as usize, (idx % n) as usize);
        let mut fails = vec![];
        eval_pair(&w, &trees[i], &trees[j], w.nodes[i], w.nodes[j], st, &mut fails);
        // ignore lists only matter for element pairs with the same name (else the name decides)
        if trees[i].k == K::Elem && trees[j].k == K::Elem && trees[i].normal_size() == 1 && trees[j].normal_size() == 1 {
            eval_ignore(&w, &trees[i], &trees[j], w.nodes[i], w.nodes[j], st, &mut fails);
            st.bump("ignore_pairs");
        }
        st.bump("pairs");
        st.outcome(&idx);
        if idx % 250_007 == 9 {
            st.sample(|| json!({"a": trees[i].show(), "b": trees[j].show(), "deep_equal": w.xot.deep_equal(w.nodes[i], w.nodes[j])}));
        }
        for f in fails {
            st.fail(&Case { a: trees[i].clone(), b: trees[j].clone(), c: None }, f);
        }
    }));
    // all triples of a subset (every 7th tree, at most 150)
    let sub: Vec<usize> = (0..trees.len()).step_by((trees.len() / tier.pick(100, 150)).max(1)).collect();
    let m = sub.len() as u64;
    stats = stats.merge(par_range(&ctx, m * m * m, |idx, st| {
        let (i, j, k) = (sub[(idx / (m * m)) as usize], sub[((idx / m) % m) as usize], sub[(idx % m) as usize]);
        let mut fails = vec![];
        eval_triple(&w, &trees, [i, j, k], st, &mut fails);
        st.bump("triples");
        for f in fails {
            st.fail(&Case { a: trees[i].clone(), b: trees[j].clone(), c: Some(trees[k].clone()) }, f);
        }
    }));
    if let Err(e) = require_nonzero(&stats, &["pairs", "triples", "deep_equal_true", "ignore_pairs"]) {
        eprintln!("MACHINERY: {}", e);
        return 2;
    }
    let cov = json!({
        "rule": format!("S = {} subtrees: all trees with <= 2 ordinary nodes over 13 element prototypes (names, namespaces, prefix-only, declaration-only, attribute value / extra / order / namespace / letter-case differences) and 9 leaves, all 3-node trees over a {} alphabet, 4 documents, detached attribute and namespace nodes; all {} ordered pairs x (deep_equal, deep_equal_children, deep_equal_xpath x 3 comparisons, advanced_deep_equal x 4 filters x 3 comparisons, shallow_equal), all 40 ignore lists (length <= 3 over k,l,z with repeats) on every pair of single elements, all triples of a {}-element subset; distinct = distinct ordered pairs (index pairs; the subtrees are pairwise different by construction)", n, tier.pick("5x5 medium", "full 13x9"), n * n, m),
        "subtrees": n, "pairs": n * n, "triples": m * m * m,
    });
    ctx.finish(stats, cov, vec!["canonical form written independently of xot (canon_f)".into()])
}
