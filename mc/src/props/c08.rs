//! C08 Name, namespace and prefix ids are a stable one-to-one interning.
//! (a) E-BFS over registration histories with a mirror of the three tables,
//! (b) boundary line: n = 0..70000 registrations per id kind, crossing every power-of-two id width.
use crate::atree::XML_NS;
use crate::common::*;
use rayon::prelude::*;
use serde::{Deserialize, Serialize};
use serde_json::json;
use std::collections::{BTreeMap, BTreeSet, HashMap, HashSet};
use xot::{NameId, NamespaceId, PrefixId, Xot};

const S: [&str; 8] = ["", "a", "b", "id", "space", "xml", XML_NS, "urn:x"];
const NSJ: [usize; 3] = [0, 6, 7];
const DOCS: [&str; 6] = [
    "<r xmlns:b=\"urn:x\"><a xmlns:b=\"urn:y\" b:id=\"1\"/><a b:id=\"2\"/><b:a/></r>",
    "<a xmlns=\"urn:x\"><?id d?><id id=\"1\"/><?a?></a>",
    "<a xmlns=\"urn:x\"><b id=\"1\" xml:space=\"default\"/></a>",
    "<b:a xmlns:b=\"urn:x\" b:id=\"1\" xml:id=\"i\"/>",
    "<a xmlns:xml=\"http://www.w3.org/XML/1998/namespace\"><space/><id/></a>",
    "<id:a xmlns:id=\"urn:y\"/>",
];

#[derive(Clone, Debug, Serialize, Deserialize, PartialEq, Eq, Hash)]
pub enum Op {
    AddName(u8),
    AddNameNs(u8, u8),
    AddNamespace(u8),
    AddPrefix(u8),
    Parse(u8),
    Html5,
    CloneXot,
}

#[derive(Clone, Serialize, Deserialize)]
pub enum Case {
    History(Vec<Op>),
    Line { kind: u8, upto: u32 },
}

struct Mirror {
    xot: Xot,
    names: HashMap<(String, String), NameId>,
    namespaces: HashMap<String, NamespaceId>,
    prefixes: HashMap<String, PrefixId>,
}

fn fresh() -> Mirror {
    let xot = Xot::new();
    let mut m = Mirror { xot, names: HashMap::new(), namespaces: HashMap::new(), prefixes: HashMap::new() };
    // built-ins
    m.namespaces.insert("".into(), m.xot.no_namespace());
    m.namespaces.insert(XML_NS.into(), m.xot.xml_namespace());
    m.prefixes.insert("".into(), m.xot.empty_prefix());
    m.prefixes.insert("xml".into(), m.xot.xml_prefix());
    m.names.insert(("space".into(), XML_NS.into()), m.xot.xml_space_name());
    m.names.insert(("id".into(), XML_NS.into()), m.xot.xml_id_name());
    m
}

impl Mirror {
    fn reg_ns(&mut self, s: &str, fails: &mut Vec<(String, String)>) -> NamespaceId {
        let id = self.xot.add_namespace(s);
        match self.namespaces.get(s) {
            Some(old) => {
                if *old != id {
                    fails.push(("namespace|same-string-different-id".into(), format!("{:?}", s)));
                }
            }
            None => {
                if self.namespaces.values().any(|v| *v == id) {
                    fails.push(("namespace|different-string-same-id".into(), format!("{:?}", s)));
                }
                self.namespaces.insert(s.to_string(), id);
            }
        }
        id
    }
    fn reg_prefix(&mut self, s: &str, fails: &mut Vec<(String, String)>) -> PrefixId {
        let id = self.xot.add_prefix(s);
        match self.prefixes.get(s) {
            Some(old) => {
                if *old != id {
                    fails.push(("prefix|same-string-different-id".into(), format!("{:?}", s)));
                }
            }
            None => {
                if self.prefixes.values().any(|v| *v == id) {
                    fails.push(("prefix|different-string-same-id".into(), format!("{:?}", s)));
                }
                self.prefixes.insert(s.to_string(), id);
            }
        }
        id
    }
    fn note_name(&mut self, local: &str, ns: &str, id: NameId, via: &str, fails: &mut Vec<(String, String)>) {
        let key = (local.to_string(), ns.to_string());
        match self.names.get(&key) {
            Some(old) => {
                if *old != id {
                    fails.push((format!("name|same-name-different-id|{}", via), format!("{:?}", key)));
                }
            }
            None => {
                if self.names.values().any(|v| *v == id) {
                    fails.push((format!("name|different-name-same-id|{}", via), format!("{:?}", key)));
                }
                self.names.insert(key, id);
            }
        }
    }

    fn apply(&mut self, op: &Op, fails: &mut Vec<(String, String)>) {
        match op {
            Op::AddName(i) => {
                let id = self.xot.add_name(S[*i as usize]);
                self.note_name(S[*i as usize], "", id, "add_name", fails);
            }
            Op::AddNameNs(i, j) => {
                let ns = S[NSJ[*j as usize]];
                let nsid = self.reg_ns(ns, fails);
                let id = self.xot.add_name_ns(S[*i as usize], nsid);
                self.note_name(S[*i as usize], ns, id, "add_name_ns", fails);
            }
            Op::AddNamespace(i) => {
                self.reg_ns(S[*i as usize], fails);
            }
            Op::AddPrefix(i) => {
                self.reg_prefix(S[*i as usize], fails);
            }
            Op::Parse(i) => {
                let Ok(doc) = self.xot.parse(DOCS[*i as usize]) else {
                    fails.push(("parse|rejected".into(), DOCS[*i as usize].into()));
                    return;
                };
                // walk the tree; every name / namespace / prefix id seen is an implicit registration
                let nodes: Vec<xot::Node> = self.xot.descendants(doc).collect();
                for n in nodes {
                    if let Some(pi) = self.xot.processing_instruction(n) {
                        let t = pi.target();
                        let (l, ns) = self.xot.name_ns_str(t);
                        let (l, ns) = (l.to_string(), ns.to_string());
                        if !ns.is_empty() {
                            fails.push(("parse|pi-target-in-namespace".into(), format!("{:?}", (l.clone(), ns.clone()))));
                        }
                        self.note_name(&l, &ns, t, "parse", fails);
                    }
                    if let Some(e) = self.xot.element(n) {
                        let nm = e.name();
                        let (l, ns) = self.xot.name_ns_str(nm);
                        let (l, ns) = (l.to_string(), ns.to_string());
                        self.note_name(&l, &ns, nm, "parse", fails);
                        let nsid = self.xot.namespace_for_name(nm);
                        self.note_ns(&ns, nsid, fails);
                        let decls: Vec<(PrefixId, NamespaceId)> = self.xot.namespaces(n).iter().map(|(p, u)| (p, *u)).collect();
                        for (p, u) in decls {
                            let ps = self.xot.prefix_str(p).to_string();
                            let us = self.xot.namespace_str(u).to_string();
                            self.note_prefix(&ps, p, fails);
                            self.note_ns(&us, u, fails);
                        }
                        let attrs: Vec<NameId> = self.xot.attributes(n).keys().collect();
                        for a in attrs {
                            let (l, ns) = self.xot.name_ns_str(a);
                            let (l, ns) = (l.to_string(), ns.to_string());
                            self.note_name(&l, &ns, a, "parse", fails);
                        }
                    }
                }
                // the parsed document names what the text says (expanded names)
                let got = crate::atree::read(&self.xot, doc);
                match crate::xmlread::read_document(DOCS[*i as usize]) {
                    crate::xmlread::Read::WellFormed(exp) => {
                        if crate::props::c01::norm(&exp) != crate::props::c01::norm(&got) {
                            fails.push(("parse|names-differ".into(), format!("{} vs {}", exp.show(), got.show())));
                        }
                    }
                    // xmlns:xml redeclaration: the reference reader has no opinion
                    _ => {}
                }
            }
            Op::Html5 => {
                let _ = self.xot.html5();
                // html5() registers the HTML element / attribute names and the XHTML, MathML and SVG namespaces:
                // adopt whatever it registered from our alphabet as implicit registrations (ids must be new)
                for s in S {
                    if !self.namespaces.contains_key(s) {
                        if let Some(id) = self.xot.namespace(s) {
                            self.note_ns(s, id, fails);
                        }
                    }
                }
                for s in S {
                    for j in NSJ {
                        if let Some(nsid) = self.namespaces.get(S[j]).copied() {
                            if !self.names.contains_key(&(s.to_string(), S[j].to_string())) {
                                if let Some(id) = self.xot.name_ns(s, nsid) {
                                    self.note_name(s, S[j], id, "html5", fails);
                                }
                            }
                        }
                    }
                }
            }
            Op::CloneXot => {
                let c = self.xot.clone();
                self.xot = c;
            }
        }
    }
    fn note_ns(&mut self, s: &str, id: NamespaceId, fails: &mut Vec<(String, String)>) {
        match self.namespaces.get(s) {
            Some(old) if *old != id => fails.push(("namespace|same-string-different-id|parse".into(), s.to_string())),
            Some(_) => {}
            None => {
                if self.namespaces.values().any(|v| *v == id) {
                    fails.push(("namespace|different-string-same-id|parse".into(), s.to_string()));
                }
                self.namespaces.insert(s.to_string(), id);
            }
        }
    }
    fn note_prefix(&mut self, s: &str, id: PrefixId, fails: &mut Vec<(String, String)>) {
        match self.prefixes.get(s) {
            Some(old) if *old != id => fails.push(("prefix|same-string-different-id|parse".into(), s.to_string())),
            Some(_) => {}
            None => {
                if self.prefixes.values().any(|v| *v == id) {
                    fails.push(("prefix|different-string-same-id|parse".into(), s.to_string()));
                }
                self.prefixes.insert(s.to_string(), id);
            }
        }
    }

    /// everything that must hold in every state
    fn invariant(&self, fails: &mut Vec<(String, String)>, st: &mut Stats) {
        let x = &self.xot;
        st.evals += 1;
        for (s, id) in &self.namespaces {
            if x.namespace_str(*id) != s {
                fails.push(("namespace|id-resolves-to-other-string".into(), format!("{:?} -> {:?}", s, x.namespace_str(*id))));
            }
            if x.namespace(s) != Some(*id) {
                fails.push(("namespace|lookup-misses-registered".into(), s.clone()));
            }
        }
        for (s, id) in &self.prefixes {
            if x.prefix_str(*id) != s {
                fails.push(("prefix|id-resolves-to-other-string".into(), s.clone()));
            }
            if x.prefix(s) != Some(*id) {
                fails.push(("prefix|lookup-misses-registered".into(), s.clone()));
            }
        }
        for ((l, ns), id) in &self.names {
            let (gl, gns) = x.name_ns_str(*id);
            if gl != l || gns != ns || x.local_name_str(*id) != l || x.uri_str(*id) != ns {
                fails.push(("name|id-resolves-to-other-name".into(), format!("{:?}", (l, ns))));
            }
            let nsid = self.namespaces.get(ns).copied();
            match nsid {
                Some(nsid) => {
                    if x.name_ns(l, nsid) != Some(*id) {
                        fails.push(("name|lookup-misses-registered".into(), format!("{:?}", (l, ns))));
                    }
                    if x.namespace_for_name(*id) != nsid {
                        fails.push(("name|namespace_for_name".into(), format!("{:?}", (l, ns))));
                    }
                }
                None => fails.push(("name|namespace-not-registered".into(), ns.clone())),
            }
            if ns.is_empty() && x.name(l) != Some(*id) {
                fails.push(("name|name()-misses-registered".into(), l.clone()));
            }
        }
        // read-only lookups find *exactly* what has been registered
        for s in S {
            if !self.namespaces.contains_key(s) && x.namespace(s).is_some() {
                fails.push(("namespace|lookup-finds-unregistered".into(), s.to_string()));
            }
            if !self.prefixes.contains_key(s) && x.prefix(s).is_some() {
                fails.push(("prefix|lookup-finds-unregistered".into(), s.to_string()));
            }
            if !self.names.contains_key(&(s.to_string(), String::new())) && x.name(s).is_some() {
                fails.push(("name|name()-finds-unregistered".into(), s.to_string()));
            }
            for j in NSJ {
                if let Some(nsid) = self.namespaces.get(S[j]) {
                    if !self.names.contains_key(&(s.to_string(), S[j].to_string())) && x.name_ns(s, *nsid).is_some() {
                        fails.push(("name|name_ns-finds-unregistered".into(), format!("{:?}", (s, S[j]))));
                    }
                }
            }
        }
        // built-ins
        let builtin_ok = x.namespace_str(x.no_namespace()).is_empty()
            && x.namespace_str(x.xml_namespace()) == XML_NS
            && x.prefix_str(x.empty_prefix()).is_empty()
            && x.prefix_str(x.xml_prefix()) == "xml"
            && x.name_ns_str(x.xml_space_name()) == ("space", XML_NS)
            && x.name_ns_str(x.xml_id_name()) == ("id", XML_NS)
            && x.no_namespace() != x.xml_namespace()
            && x.empty_prefix() != x.xml_prefix()
            && x.xml_space_name() != x.xml_id_name();
        if !builtin_ok {
            fails.push(("builtin".into(), String::new()));
        }
    }

    fn key(&self, html5: bool) -> String {
        let a: BTreeSet<&(String, String)> = self.names.keys().collect();
        let b: BTreeSet<&String> = self.namespaces.keys().collect();
        let c: BTreeSet<&String> = self.prefixes.keys().collect();
        format!("{:?}|{:?}|{:?}|{}", a, b, c, html5)
    }
}

fn all_ops() -> Vec<Op> {
    let mut v = vec![];
    for i in 0..S.len() as u8 {
        v.push(Op::AddName(i));
        for j in 0..NSJ.len() as u8 {
            v.push(Op::AddNameNs(i, j));
        }
        v.push(Op::AddNamespace(i));
        v.push(Op::AddPrefix(i));
    }
    for i in 0..DOCS.len() as u8 {
        v.push(Op::Parse(i));
    }
    v.push(Op::Html5);
    v.push(Op::CloneXot);
    v
}

fn run_history(ops: &[Op], st: &mut Stats) -> (Vec<Fail>, String) {
    let mut m = fresh();
    let mut html5 = false;
    for (i, op) in ops.iter().enumerate() {
        let mut f = vec![];
        let r = catch(|| m.apply(op, &mut f));
        if matches!(op, Op::Html5) {
            html5 = true;
        }
        let last = i + 1 == ops.len();
        if let Err(p) = r {
            return (if last { vec![Fail::new(format!("panic|{:?}", op).split('(').next().unwrap().to_string(), p)] } else { vec![] }, String::new());
        }
        if last {
            let _ = catch(|| m.invariant(&mut f, st));
            if !f.is_empty() {
                let opn = format!("{:?}", op).split('(').next().unwrap().to_string();
                return (f.into_iter().map(|(s, d)| Fail::new(format!("{}|after:{}", s, opn), format!("history {:?}: {}", ops, d))).collect(), String::new());
            }
        }
    }
    if ops.is_empty() {
        let mut f = vec![];
        m.invariant(&mut f, st);
        return (f.into_iter().map(|(s, d)| Fail::new(format!("{}|start", s), d)).collect(), m.key(false));
    }
    (vec![], m.key(html5))
}

/// boundary line for one id kind: 0 = names, 1 = namespaces, 2 = prefixes, 3 = names via parse
fn run_line(kind: u8, upto: u32, st: &mut Stats) -> Vec<Fail> {
    let mut fails = vec![];
    let mut xot = Xot::new();
    let label = ["name", "namespace", "prefix", "name-via-parse"][kind as usize];
    let mk = |n: u32| format!("s{}", n);
    let mut seen: HashSet<u64> = HashSet::new();
    let mut ids: Vec<u64> = vec![];
    fn h<T: std::hash::Hash>(t: &T) -> u64 {
        use std::hash::Hasher;
        let mut s = std::collections::hash_map::DefaultHasher::new();
        t.hash(&mut s);
        s.finish()
    }
    if kind == 3 {
        // one generated document with `upto` distinct element names
        let mut text = String::from("<r>");
        for n in 0..upto {
            text.push_str(&format!("<s{}/>", n));
        }
        text.push_str("</r>");
        let Ok(doc) = xot.parse(&text) else {
            return vec![Fail::new("line|parse-rejected", "generated document rejected")];
        };
        let r = xot.document_element(doc).unwrap();
        let mut by_id: HashMap<NameId, u32> = HashMap::new();
        for (n, c) in xot.children(r).enumerate() {
            let id = xot.element(c).unwrap().name();
            st.evals += 1;
            if let Some(prev) = by_id.insert(id, n as u32) {
                fails.push(Fail::new(format!("line|{}|different-string-same-id", label), format!("elements s{} and s{} share a name id", prev, n)));
                break;
            }
            if xot.local_name_str(id) != mk(n as u32) {
                fails.push(Fail::new(format!("line|{}|id-resolves-to-other-string", label), format!("element {} resolves to {}", n, xot.local_name_str(id))));
                break;
            }
        }
        return fails;
    }
    // built-in registrations already occupy some ids
    let reg = |xot: &mut Xot, s: &str| -> u64 {
        match kind {
            0 => h(&xot.add_name(s)),
            1 => h(&xot.add_namespace(s)),
            _ => h(&xot.add_prefix(s)),
        }
    };
    let lookup = |xot: &Xot, n: u32| -> Option<String> {
        let s = mk(n);
        match kind {
            0 => xot.name(&s).map(|id| xot.local_name_str(id).to_string()),
            1 => xot.namespace(&s).map(|id| xot.namespace_str(id).to_string()),
            _ => xot.prefix(&s).map(|id| xot.prefix_str(id).to_string()),
        }
    };
    for n in 0..upto {
        let s = mk(n);
        let id = reg(&mut xot, &s);
        st.evals += 1;
        if !seen.insert(id) {
            let other = ids.iter().position(|x| *x == id).unwrap_or(0);
            fails.push(Fail::new(format!("line|{}|different-string-same-id", label), format!("registration {} ({}) returns the id of registration {}", n, s, other)));
            break;
        }
        ids.push(id);
        if lookup(&xot, n).as_deref() != Some(s.as_str()) {
            fails.push(Fail::new(format!("line|{}|id-resolves-to-other-string", label), format!("registration {} ({}) looks up as {:?}", n, s, lookup(&xot, n))));
            break;
        }
        // re-registering earlier strings returns their ids
        for back in [0u32, 1, n.saturating_sub(1), n.saturating_sub(65_536)] {
            if back < n {
                let again = reg(&mut xot, &mk(back));
                if again != ids[back as usize] {
                    fails.push(Fail::new(format!("line|{}|same-string-different-id", label), format!("after {} registrations, s{} gets another id", n + 1, back)));
                    return fails;
                }
            }
        }
        // full sweeps at the interesting widths
        if matches!(n + 1, 255 | 256 | 257 | 65_535 | 65_536 | 65_537 | 70_000) {
            for b in 0..=n {
                if lookup(&xot, b).as_deref() != Some(mk(b).as_str()) {
                    fails.push(Fail::new(format!("line|{}|id-resolves-to-other-string", label), format!("after {} registrations s{} looks up as {:?}", n + 1, b, lookup(&xot, b))));
                    return fails;
                }
            }
            // built-ins keep their meaning
            if xot.namespace_str(xot.xml_namespace()) != XML_NS || xot.prefix_str(xot.xml_prefix()) != "xml" || xot.name_ns_str(xot.xml_id_name()) != ("id", XML_NS) {
                fails.push(Fail::new(format!("line|{}|builtin-changed", label), format!("after {} registrations", n + 1)));
                return fails;
            }
            st.bump("full_sweeps");
        }
    }
    fails
}

pub fn eval(case: &Case) -> Vec<Fail> {
    let mut st = Stats::default();
    match case {
        Case::History(ops) => run_history(ops, &mut st).0,
        Case::Line { kind, upto } => run_line(*kind, *upto, &mut st),
    }
}

pub fn run(tier: Tier) -> i32 {
    let ctx = Ctx::new("C08", tier, "model_checking");
    let depth = tier.pick(4, 5);
    let ops = all_ops();
    let mut total = Stats::default();
    let mut visited: HashSet<String> = HashSet::new();
    let (f0, k0) = run_history(&[], &mut total);
    for f in f0 {
        total.fail(&Case::History(vec![]), f);
    }
    visited.insert(k0);
    let mut frontier: Vec<Vec<Op>> = vec![vec![]];
    let mut transitions = 0u64;
    let mut levels = vec![];
    for d in 0..depth {
        if ctx.expired() {
            total.capped = true;
            break;
        }
        let results: Vec<(Stats, Vec<(String, Vec<Op>)>)> = frontier
            .par_iter()
            .map(|hist| {
                let mut st = Stats::default();
                let mut succ = vec![];
                for op in &ops {
                    let mut h = hist.clone();
                    h.push(op.clone());
                    let (fails, key) = run_history(&h, &mut st);
                    st.bump("transitions");
                    if !fails.is_empty() {
                        for f in fails {
                            st.fail(&Case::History(h.clone()), f);
                        }
                    } else {
                        st.outcome(&key);
                        succ.push((key, h));
                    }
                }
                if hist.len() == 2 {
                    st.sample(|| json!({"history": format!("{:?}", hist)}));
                }
                (st, succ)
            })
            .collect();
        let mut cands: BTreeMap<String, Vec<Op>> = BTreeMap::new();
        let mut lt = 0;
        for (st, succ) in results {
            lt += st.counters.get("transitions").copied().unwrap_or(0);
            total = total.merge(st);
            for (key, h) in succ {
                if visited.contains(&key) {
                    continue;
                }
                match cands.get(&key) {
                    Some(old) if format!("{:?}", old) <= format!("{:?}", h) => {}
                    _ => {
                        cands.insert(key, h);
                    }
                }
            }
        }
        transitions += lt;
        for key in cands.keys() {
            visited.insert(key.clone());
        }
        levels.push(json!({"depth": d + 1, "frontier": frontier.len(), "transitions": lt, "new_states": cands.len()}));
        frontier = cands.into_values().collect();
    }
    // boundary lines
    let lines: Vec<(u8, u32)> = vec![(0, 70_000), (1, 70_000), (2, 70_000), (3, 66_000)];
    let lr: Vec<(Stats, Vec<Fail>, (u8, u32))> = lines
        .par_iter()
        .map(|(k, n)| {
            let mut st = Stats::default();
            let f = match catch(|| run_line(*k, *n, &mut st)) {
                Ok(f) => f,
                Err(p) => vec![Fail::new(format!("line|panic|{}", k), p)],
            };
            st.bump("lines");
            (st, f, (*k, *n))
        })
        .collect();
    let mut line_states = 0u64;
    for (st, f, (k, n)) in lr {
        line_states += n as u64;
        total = total.merge(st);
        for fl in f {
            total.fail(&Case::Line { kind: k, upto: n }, fl);
        }
    }
    if let Err(e) = require_nonzero(&total, &["transitions", "lines"]) {
        eprintln!("MACHINERY: {}", e);
        return 2;
    }
    let cov = json!({
        "states": visited.len() as u64 + line_states,
        "transitions": transitions + line_states,
        "traces_validated_against_impl": transitions + line_states,
        "rule": "(a) every history up to the depth bound over add_name / add_name_ns / add_namespace / add_prefix (8 strings incl. '', 'xml', 'id', 'space', the XML namespace URI; 3 namespaces), parse of 4 documents using those strings, html5(), Xot::clone; states = distinct sets of registered names, namespaces and prefixes; in every state every registered id must resolve to its string, every read-only lookup must find exactly the registered entries, built-ins keep their meaning; (b) one line of states n = 0..70000 per id kind (and 66000 element names through parse): each new id differs from all earlier ones, resolves to its string, earlier strings keep their ids; full sweeps at 255/256/257/65535/65536/65537/70000",
        "bounds": {"depth": depth, "ops_per_state": ops.len(), "line_length": 70000},
        "levels_completed": levels,
    });
    ctx.finish(total, cov, vec!["the interning tables are data-independent, so states of the boundary line with equal n are symmetric".into()])
}
