//! C01 Serialise-then-parse returns the same tree.
//! (a) content sweep: all strings over a sharp alphabet in text and attribute slots,
//! (b) structure sweep: all small documents / fragments,
//! (c) namespace-layout sweep: all serialisable declaration layouts.
use crate::atree::*;
use crate::common::*;
use crate::gen::*;
use crate::nsscope::*;
use serde::{Deserialize, Serialize};
use serde_json::json;
use xot::Xot;

#[derive(Serialize, Deserialize, Clone)]
pub struct Case {
    /// always a document node at the top
    pub tree: A,
    /// parse with `parse_fragment` instead of `parse`
    pub fragment: bool,
}

pub const SIGMA_TXT: [&str; 14] = ["a", " ", "\t", "\n", "\r", "<", "&", ">", "\"", "'", "]", "\u{10000}", "\u{85}", "\u{2028}"];

/// normal form for comparison: attributes as a set, declarations as a map
pub fn norm(a: &A) -> A {
    a.sorted_attrs().sorted_decls()
}

/// One round trip. Returns failures with signatures `roundtrip|<route>|<difference class>`.
pub fn round_trip(xot: &mut Xot, root: xot::Node, expected: &A, fragment: bool, route: &str, fails: &mut Vec<Fail>) -> Option<String> {
    let text = match catch(|| xot.to_string(root)) {
        Err(p) => {
            fails.push(Fail::new(format!("panic|to_string|{}", panic_class(&p)), format!("to_string panicked: {} on {}", p, expected.show())));
            return None;
        }
        Ok(Err(e)) => {
            fails.push(Fail::new(format!("to_string-err|{}|{}", route, err_class(&format!("{:?}", e))), format!("to_string failed: {:?} on {}", e, expected.show())));
            return None;
        }
        Ok(Ok(t)) => t,
    };
    let parsed = catch(|| if fragment { xot.parse_fragment(&text) } else { xot.parse(&text) });
    let node = match parsed {
        Err(p) => {
            fails.push(Fail::new(format!("panic|parse|{}", panic_class(&p)), format!("parse panicked: {} on {:?}", p, text)));
            return Some(text);
        }
        Ok(Err(e)) => {
            fails.push(Fail::new(
                format!("reparse-err|{}|{}", route, err_class(&format!("{:?}", e))),
                format!("output {:?} of {} is rejected: {:?}", text, expected.show(), e),
            ));
            return Some(text);
        }
        Ok(Ok(n)) => n,
    };
    let got = norm(&read(xot, node));
    let exp = norm(expected);
    // "declarations survive on the same elements with the same bindings": every declaration of the original must
    // be there with its value; additional declarations written by the serialiser are tolerated here (names are
    // compared by expanded name, so a wrong extra declaration would show up as a changed name)
    fn keep_expected_decls(exp: &A, got: &A) -> A {
        let mut g = got.clone();
        g.nss.retain(|d| exp.nss.iter().any(|e| e.name == d.name));
        g.ch = got.ch.iter().enumerate().map(|(i, c)| match exp.ch.get(i) {
            Some(e) if e.k == c.k => keep_expected_decls(e, c),
            _ => c.clone(),
        }).collect();
        g
    }
    let got = keep_expected_decls(&exp, &got);
    if let Some(d) = diff_class(&exp, &got) {
        fails.push(Fail::new(format!("roundtrip|{}|{}", route, d), format!("{} serialised as {:?} reparsed as {}", expected.show(), text, got.show())));
    } else {
        // cross-check with xot's own deep_equal (not an oracle by itself)
        if !xot.deep_equal(root, node) {
            fails.push(Fail::new(format!("deep_equal-disagrees|{}", route), format!("read-back equal but deep_equal false for {}", expected.show())));
        }
    }
    Some(text)
}

pub fn err_class(s: &str) -> String {
    s.split(|c: char| !c.is_alphanumeric()).next().unwrap_or("").to_string()
}

pub fn eval(case: &Case) -> Vec<Fail> {
    let mut st = Stats::default();
    eval_case(case, &mut st, true)
}

pub fn eval_case(case: &Case, st: &mut Stats, routes: bool) -> Vec<Fail> {
    let mut fails = vec![];
    // route 1: creation API
    let mut xot = Xot::new();
    let root = build1(&mut xot, &case.tree);
    st.evals += 1;
    let text = round_trip(&mut xot, root, &case.tree, case.fragment, "created", &mut fails);
    if !routes || !fails.is_empty() {
        return fails;
    }
    // route 2: the tree obtained by parsing the rendering is itself serialised and parsed again
    if let Some(text) = text {
        let mut xot2 = Xot::new();
        if let Ok(n) = if case.fragment { xot2.parse_fragment(&text) } else { xot2.parse(&text) } {
            st.evals += 1;
            round_trip(&mut xot2, n, &case.tree, case.fragment, "parsed", &mut fails);
        }
    }
    // route 3: every child subtree is built under a scratch parent and then moved into place
    let mut xot3 = Xot::new();
    let doc = xot3.new_document();
    let scratch_name = xot3.add_name("scratch");
    let scratch = xot3.new_element(scratch_name);
    let mut ok = true;
    for c in &case.tree.ch {
        let n = build1(&mut xot3, c);
        if xot3.append(scratch, n).is_err() {
            ok = false;
        }
    }
    if ok {
        let kids: Vec<_> = xot3.children(scratch).collect();
        if kids.len() == case.tree.ch.len() {
            for k in kids {
                if xot3.append(doc, k).is_err() {
                    ok = false;
                }
            }
            if ok {
                st.evals += 1;
                round_trip(&mut xot3, doc, &case.tree, case.fragment, "moved", &mut fails);
            }
        }
    }
    fails
}

// ------------------------------------------------------------------------------------

fn content_cases(l: u32) -> u64 {
    strings_count(SIGMA_TXT.len() as u64, l)
}

fn content_case(l: u32, i: u64) -> Vec<Case> {
    let s = nth_str(&SIGMA_TXT, l, i);
    let mut out = vec![];
    // <a k="S">S</a>
    // the same value under a plain name, under a name that merely looks like xml:id, and under a namespaced "id"
    let mut e = A::el("", "a").decl("p", X).attr("", "k", &s).attr("", "id", &s).attr(X, "id", &s);
    if !s.is_empty() {
        e = e.child(A::text(&s));
    }
    out.push(Case { tree: A::doc(vec![e]), fragment: false });
    if !s.is_empty() {
        // fragment S<a/>S
        out.push(Case { tree: A::doc(vec![A::text(&s), A::el("", "a"), A::text(&s)]), fragment: true });
    }
    out
}

fn structure_alphabet(tier: Tier, wide: bool) -> TreeAlphabet {
    let elements = if wide || tier == Tier::Quick {
        vec![A::el("", "a"), A::el("", "b").attr("", "k", "v"), A::el(X, "a").decl("p", X), A::el(Y, "b").decl("", Y)]
    } else {
        vec![A::el("", "a"), A::el(X, "a").decl("p", X)]
    };
    TreeAlphabet { elements, leaves: vec![A::text("t"), A::comment("c"), A::pi("pi", None), A::pi("pi", Some("d"))], adjacent_text: false }
}

fn structure_cases(tier: Tier) -> Vec<Case> {
    let mut out = vec![];
    // the generator materialises every forest: keep the wide alphabet at 5 nodes in both tiers
    let n = 5;
    let al = structure_alphabet(tier, true);
    for k in 1..=n {
        for f in forests(&al, k) {
            // a no-namespace element below a default namespace cannot be expressed without adding xmlns=""
            let doc = A::doc(f.clone());
            if !serialisable(&doc, &base_scope()) {
                continue;
            }
            let elems = f.iter().filter(|c| c.k == K::Elem).count();
            let has_text = f.iter().any(|c| c.k == K::Text);
            if elems == 1 && !has_text {
                out.push(Case { tree: doc.clone(), fragment: false });
            }
            out.push(Case { tree: doc, fragment: true });
        }
    }
    if tier == Tier::Thorough {
        let al = structure_alphabet(tier, false);
        for f in forests(&al, 6) {
            let doc = A::doc(f.clone());
            let elems = f.iter().filter(|c| c.k == K::Elem).count();
            let has_text = f.iter().any(|c| c.k == K::Text);
            if elems == 1 && !has_text {
                out.push(Case { tree: doc, fragment: false });
            }
        }
    }
    out
}

fn layout_total(tier: Tier) -> u64 {
    let s = SPEC_TOTAL;
    let r = tier.pick(small_specs(), reduced_specs()).len() as u64;
    s + s * s + 2 * match tier {
        Tier::Quick => r * r * r,
        Tier::Thorough => s * r * r,
    }
}

fn layout_case(tier: Tier, mut i: u64) -> A {
    let s = SPEC_TOTAL;
    let red = tier.pick(small_specs(), reduced_specs());
    let r = red.len() as u64;
    if i < s {
        return layout_tree(0, &[spec_from(i)]);
    }
    i -= s;
    if i < s * s {
        return layout_tree(1, &[spec_from(i / s), spec_from(i % s)]);
    }
    i -= s * s;
    let g3 = match tier {
        Tier::Quick => r * r * r,
        Tier::Thorough => s * r * r,
    };
    let shape = if i < g3 { 2 } else { 3 };
    let j = i % g3;
    let specs = match tier {
        Tier::Quick => [red[(j / (r * r)) as usize], red[((j / r) % r) as usize], red[(j % r) as usize]],
        Tier::Thorough => [spec_from(j / (r * r)), red[((j / r) % r) as usize], red[(j % r) as usize]],
    };
    layout_tree(shape, &specs)
}

pub fn run(tier: Tier) -> i32 {
    let ctx = Ctx::new("C01", tier, "exploration");
    let l = tier.pick(4, 5);
    // (a) content
    let mut stats = par_range(&ctx, content_cases(l), |i, st| {
        for case in content_case(l, i) {
            let fails = eval_case(&case, st, true);
            st.bump("content_cases");
            st.outcome(&case.tree.canon());
            if i % 701 == 5 {
                st.sample(|| json!({"sweep": "content", "tree": case.tree.show(), "fragment": case.fragment}));
            }
            for f in fails {
                st.fail(&case, f);
            }
        }
    });
    // (b) structure
    let sc = structure_cases(tier);
    stats = stats.merge(par_slice(&ctx, &sc, |case, st| {
        let fails = eval_case(case, st, true);
        st.bump("structure_cases");
        st.outcome(&(case.tree.canon(), case.fragment));
        if st.counters["structure_cases"] % 4001 == 7 {
            st.sample(|| json!({"sweep": "structure", "tree": case.tree.show(), "fragment": case.fragment}));
        }
        for f in fails {
            st.fail(case, f);
        }
    }));
    // (c) namespace layouts (serialisable ones)
    let lt = layout_total(tier);
    stats = stats.merge(par_range(&ctx, lt, |i, st| {
        let t = layout_case(tier, i);
        st.bump("layouts_enumerated");
        if !serialisable(&t, &base_scope()) {
            return;
        }
        let case = Case { tree: A::doc(vec![t]), fragment: false };
        let fails = eval_case(&case, st, i % 16 == 0);
        st.bump("layouts_serialisable");
        if lt < 4_000_000 || i % 97 == 0 {
            st.outcome(&case.tree.canon());
        }
        if i % 300_007 == 11 {
            st.sample(|| json!({"sweep": "layout", "tree": case.tree.show()}));
        }
        for f in fails {
            st.fail(&case, f);
        }
    }));
    // (d) namespace URIs with characters that need escaping
    const SIGMA_URI: [&str; 10] = ["u", "&", "<", ">", "\"", "'", " ", "\u{e9}", "\t", "\n"];
    let ut = strings_count(SIGMA_URI.len() as u64, 2);
    stats = stats.merge(par_range(&ctx, ut, |i, st| {
        let u = nth_str(&SIGMA_URI, 2, i);
        if u.is_empty() || u.trim_matches(' ') != u || u.contains("  ") || u.chars().all(|c| c.is_whitespace()) {
            return; // attribute-value normalisation is not at stake here; keep URIs free of edge spaces
        }
        for t in [A::el(&u, "a").decl("p", &u), A::el(&u, "a").decl("", &u), A::el("", "a").decl("p", &u).attr(&u, "k", "v")] {
            let case = Case { tree: A::doc(vec![t]), fragment: false };
            let fails = eval_case(&case, st, true);
            st.bump("uri_cases");
            st.outcome(&case.tree.canon());
            for f in fails {
                st.fail(&case, f);
            }
        }
    }));
    // (e) comment and PI bodies: every string free of the node's own terminator. CR is left out: a literal CR in a
    // comment or PI is read back as LF by any XML parser and cannot be escaped there, so XML 1.0 cannot express it.
    const SIGMA_BODY: [&str; 12] = ["a", "-", "?", ">", "<", "&", " ", "\n", "\t", "]", "!", "\u{85}"];
    let bl = tier.pick(3, 4);
    let bt = strings_count(SIGMA_BODY.len() as u64, bl);
    stats = stats.merge(par_range(&ctx, bt, |i, st| {
        let b = nth_str(&SIGMA_BODY, bl, i);
        let mut trees = vec![];
        if !b.contains("--") && !b.ends_with('-') {
            trees.push(A::doc(vec![A::comment(&b), A::el("", "a").child(A::comment(&b)).child(A::text("t")), A::comment(&b)]));
        }
        // PI data cannot start with white space (it would be read as the separator) and cannot be empty
        if !b.contains("?>") && !b.is_empty() && !b.starts_with([' ', '\n', '\t']) {
            trees.push(A::doc(vec![A::pi("pi", Some(&b)), A::el("", "a").child(A::pi("pi", Some(&b))), A::pi("p.i-2", Some(&b))]));
        }
        for t in trees {
            let case = Case { tree: t, fragment: false };
            let fails = eval_case(&case, st, true);
            st.bump("body_cases");
            st.outcome(&case.tree.canon());
            for f in fails {
                st.fail(&case, f);
            }
        }
    }));
    // (f) names: NCNames beyond ASCII letters, as element, attribute, prefix and PI target, in and out of a namespace
    const NAMES: [&str; 14] = ["a", "A", "_", "a-b", "a.b", "a1", "_1", "\u{e9}", "a\u{b7}", "\u{3b1}\u{3b2}", "\u{4e2d}", "\u{10000}", "xmlfoo", "a\u{300}"];
    let nn = NAMES.len() as u64;
    stats = stats.merge(par_range(&ctx, nn * nn, |i, st| {
        let (n1, n2) = (NAMES[(i / nn) as usize], NAMES[(i % nn) as usize]);
        let mut trees = vec![
            A::doc(vec![A::el("", n1).attr("", n2, "v").child(A::pi(n2, None)).child(A::el("", n2))]),
            A::doc(vec![A::el(X, n1).decl(n2, X).attr(X, n2, "v").child(A::el(X, n2).attr("", n1, "w"))]),
            A::doc(vec![A::el(X, n1).decl("", X).decl(n2, Y).attr(Y, n1, "v").child(A::el(Y, n2))]),
        ];
        // names that only look special
        if i == 0 {
            trees.push(A::doc(vec![A::el(X, "xmlns").decl("p", X).attr(X, "xmlns", "v").attr(X, "id", " a  b ").attr(X, "space", "preserve").child(A::el("", "xml").child(A::pi("xmlns", Some("d"))))]));
        }
        // the redundant but legal declaration of the xml prefix is a declaration like any other
        if i == 1 {
            trees.push(A::doc(vec![A::el("", "a").decl("xml", XML_NS).attr(XML_NS, "lang", "en").child(A::el("", "b").decl("p", X).decl("xml", XML_NS))]));
        }
        if n2.starts_with("xml") {
            // prefixes beginning with xml are reserved; keep them out of the prefix position
            trees.truncate(1);
        }
        for t in trees {
            let case = Case { tree: t, fragment: false };
            let fails = eval_case(&case, st, true);
            st.bump("name_cases");
            st.outcome(&case.tree.canon());
            for f in fails {
                st.fail(&case, f);
            }
        }
    }));
    if let Err(e) = require_nonzero(&stats, &["content_cases", "structure_cases", "layouts_serialisable", "uri_cases", "body_cases", "name_cases"]) {
        eprintln!("MACHINERY: {}", e);
        return 2;
    }
    let cov = json!({
        "rule": format!("(a) every string of length <= {} over {{a, space, TAB, LF, CR, <, &, >, \", ', ], U+10000, U+0085, U+2028}} as attribute value (of k, id and p:id) and text of <a k=S id=S p:id=S>S</a> and as text of fragment S<a/>S; (b) every document / fragment with <= {} ordinary nodes over 4 element prototypes, text, comment, PI with/without data, no adjacent text{}; (c) every serialisable namespace layout of 1-3 elements (540 specs per element; 3-element layouts over a reduced menu); (d) namespace URIs of length <= 2 over 10 symbols; (e) every comment / PI body of length <= {} over {{a - ? > < & space LF TAB ] ! U+0085}} that is free of its own terminator, at top level and inside an element; (f) every pair of 14 NCNames (ASCII with - . _ digits, Latin-1, Greek, CJK, U+10000, combining and middle-dot name characters, xml-prefixed) as element, attribute, prefix and PI target names; each tree round-tripped as built by the creation API, as re-parsed, and as assembled by moving subtrees; distinct = distinct canonical trees", l, 5, tier.pick("", "; plus every document with 6 nodes over 2 element prototypes"), bl),
        "bounds": {"string_len": l, "max_nodes": tier.pick(5, 6), "layout_total": lt, "uri_len": 2},
    });
    ctx.finish(stats, cov, vec![])
}
