//! Exhaustive generators: strings over an alphabet, mixed-radix products, labelled ordered trees.
use crate::atree::{A, K};

/// number of strings over an alphabet of size k with length in 0..=l
pub fn strings_count(k: u64, l: u32) -> u64 {
    (0..=l).map(|i| k.pow(i)).sum()
}

/// the i-th string (shortest first, then lexicographic by alphabet index)
pub fn nth_string<T: Clone>(alpha: &[T], l: u32, mut i: u64) -> Vec<T> {
    let k = alpha.len() as u64;
    let mut len = 0u32;
    loop {
        let c = k.pow(len);
        if i < c {
            break;
        }
        i -= c;
        len += 1;
        assert!(len <= l, "index out of range");
    }
    let mut out = Vec::with_capacity(len as usize);
    let mut digits = vec![0u64; len as usize];
    for d in digits.iter_mut().rev() {
        *d = i % k;
        i /= k;
    }
    for d in digits {
        out.push(alpha[d as usize].clone());
    }
    out
}

pub fn nth_str(alpha: &[&str], l: u32, i: u64) -> String {
    nth_string(alpha, l, i).concat()
}

/// decode index into mixed-radix digits (first radix is most significant)
pub fn mixed(radices: &[usize], mut i: u64) -> Vec<usize> {
    let mut out = vec![0; radices.len()];
    for (j, r) in radices.iter().enumerate().rev() {
        out[j] = (i % *r as u64) as usize;
        i /= *r as u64;
    }
    out
}
pub fn mixed_total(radices: &[usize]) -> u64 {
    radices.iter().map(|r| *r as u64).product()
}

/// All subsets of 0..n as bitmasks
pub fn subsets(n: usize) -> impl Iterator<Item = u32> {
    0..(1u32 << n)
}

// ------------------------------------------------------------------------------------
// labelled ordered forests

/// Options for tree generation.
#[derive(Clone)]
pub struct TreeAlphabet {
    /// element prototypes (name, namespace, optional decorations); children are added by the generator
    pub elements: Vec<A>,
    /// leaf prototypes (text, comment, PI …)
    pub leaves: Vec<A>,
    /// allow two adjacent text siblings
    pub adjacent_text: bool,
}

/// All forests (sequences of trees) with exactly `n` ordinary nodes in total.
pub fn forests(al: &TreeAlphabet, n: usize) -> Vec<Vec<A>> {
    let mut memo: Vec<Option<Vec<Vec<A>>>> = vec![None; n + 1];
    forests_memo(al, n, &mut memo)
}

fn forests_memo(al: &TreeAlphabet, n: usize, memo: &mut Vec<Option<Vec<Vec<A>>>>) -> Vec<Vec<A>> {
    if let Some(m) = &memo[n] {
        return m.clone();
    }
    let mut out = vec![];
    if n == 0 {
        out.push(vec![]);
    } else {
        // first tree has k nodes, rest forest has n-k
        for k in 1..=n {
            let firsts = trees_memo(al, k, memo);
            let rests = forests_memo(al, n - k, memo);
            for f in &firsts {
                for r in &rests {
                    if !al.adjacent_text && f.k == K::Text && r.first().map(|x| x.k == K::Text).unwrap_or(false) {
                        continue;
                    }
                    let mut v = Vec::with_capacity(1 + r.len());
                    v.push(f.clone());
                    v.extend(r.iter().cloned());
                    out.push(v);
                }
            }
        }
    }
    memo[n] = Some(out.clone());
    out
}

fn trees_memo(al: &TreeAlphabet, n: usize, memo: &mut Vec<Option<Vec<Vec<A>>>>) -> Vec<A> {
    let mut out = vec![];
    if n == 1 {
        for l in &al.leaves {
            out.push(l.clone());
        }
    }
    let kids = forests_memo(al, n - 1, memo);
    for e in &al.elements {
        for f in &kids {
            let mut x = e.clone();
            x.ch = f.clone();
            out.push(x);
        }
    }
    out
}

/// All single trees with exactly n ordinary nodes whose root is an element.
pub fn element_trees(al: &TreeAlphabet, n: usize) -> Vec<A> {
    let mut out = vec![];
    if n == 0 {
        return out;
    }
    for f in forests(al, n - 1) {
        for e in &al.elements {
            let mut x = e.clone();
            x.ch = f.clone();
            out.push(x);
        }
    }
    out
}

/// All trees (any root kind from the alphabet) with 1..=n ordinary nodes.
pub fn trees_upto(al: &TreeAlphabet, n: usize) -> Vec<A> {
    let mut out = vec![];
    for k in 1..=n {
        let mut memo = vec![None; k + 1];
        out.extend(trees_memo(al, k, &mut memo));
    }
    out
}

/// Unlabelled shapes: all ordered rooted trees with n nodes, as child-count preorder codes.
pub fn shapes(n: usize) -> Vec<A> {
    let al = TreeAlphabet { elements: vec![A::el("", "a")], leaves: vec![], adjacent_text: true };
    element_trees(&al, n)
}

#[cfg(test)]
mod tests {
    use super::*;
    #[test]
    fn catalan() {
        // number of ordered rooted trees with n nodes = Catalan(n-1)
        let c: Vec<usize> = (1..=7).map(|n| shapes(n).len()).collect();
        assert_eq!(c, vec![1, 1, 2, 5, 14, 42, 132]);
    }
    #[test]
    fn strings() {
        assert_eq!(strings_count(3, 2), 13);
        let all: Vec<String> = (0..13).map(|i| nth_str(&["a", "b", "c"], 2, i)).collect();
        assert_eq!(all[0], "");
        assert_eq!(all[1], "a");
        assert_eq!(all[4], "aa");
        assert_eq!(all[12], "cc");
        let set: std::collections::HashSet<_> = all.iter().collect();
        assert_eq!(set.len(), 13);
    }
}
