#!/bin/bash
# runs the repository's own suite (guard off; there are no hooks) and prints "<passed> <failed>"
cd /repo && cargo test --workspace --no-fail-fast --offline 2>&1 | grep -E '^test result' | awk '{p+=$4; f+=$6} END {print p, f}'
