#!/bin/bash
# runs the repository's own suite (guard off; there are no hooks) and prints "<passed> <failed>",
# first with the pinned command, then with every optional feature enabled (proptest, serde, icu)
cd /repo && cargo test --workspace --no-fail-fast --offline 2>&1 | grep -E '^test result' | awk '{p+=$4; f+=$6} END {print p, f}'
cd /repo && cargo test --workspace --no-fail-fast --offline --all-features 2>&1 | grep -E '^test result' | awk '{p+=$4; f+=$6} END {print p, f, "(all features)"}'
