#!/usr/bin/env python3
"""Confirm a sub-agent's mutation in its scratch worktree and store it as /verif/seeded/<id>/.
usage: confirm_seed.py <worktree> <outdir/mutN> <seed id> <property ids...>"""
import json, os, shutil, subprocess, sys
wt, src, sid, props = sys.argv[1], sys.argv[2], sys.argv[3], sys.argv[4:]
def sh(c, cwd=wt):
    return subprocess.run(c, shell=True, cwd=cwd, capture_output=True, text=True)
def suite():
    r = sh("cargo test --workspace --no-fail-fast --offline 2>&1 | grep -E '^test result' | awk '{p+=$4; f+=$6} END {print p, f}'")
    return r.stdout.strip()
def demo():
    r = sh("cargo test --offline --test demo_seed 2>&1 | grep -E '^test result'")
    return r.stdout.strip()
assert sh("git status --porcelain").stdout.strip() == "", "worktree not clean"
ran = {}
r = sh(f"git apply {src}/patch.diff")
assert r.returncode == 0, r.stderr
ran["suite_with_change"] = suite()
shutil.copy(f"{src}/demo.rs", f"{wt}/tests/demo_seed.rs")
ran["demo_with_change"] = demo()
sh("git checkout -- .")
ran["demo_without_change"] = demo()
os.remove(f"{wt}/tests/demo_seed.rs")
assert sh("git status --porcelain").stdout.strip() == ""
ok = ran["suite_with_change"].endswith(" 0") and "FAILED" in ran["demo_with_change"] and "ok." in ran["demo_without_change"] and "FAILED" not in ran["demo_without_change"]
print(sid, "CONFIRMED" if ok else "NOT CONFIRMED", ran)
if ok:
    d = f"/verif/seeded/{sid}"
    os.makedirs(d, exist_ok=True)
    shutil.copy(f"{src}/patch.diff", f"{d}/patch.diff")
    shutil.copy(f"{src}/demo.rs", f"{d}/demo.rs")
    notes = open(f"{src}/notes.md").read() if os.path.exists(f"{src}/notes.md") else ""
    open(f"{d}/notes.md", "w").write(notes)
    base = sh("git rev-parse --short HEAD").stdout.strip()
    json.dump({"id": sid, "properties": props, "base_commit": base, "needs": "see notes.md", "origin": "independent sub-agent given only the property text and a scratch worktree",
               "confirmed": ran, "confirmed_how": "scratch worktree: git apply patch.diff; cargo test --workspace --offline (all pass); demo.rs as tests/demo_seed.rs fails with the change and passes without"}, open(f"{d}/meta.json", "w"), indent=1)
