#!/usr/bin/env python3
"""Regenerate the generated tables of DESIGN.md (between <!-- BEGIN:x --> / <!-- END:x --> markers)
from known_findings.json, mutants/RESULTS.jsonl and seeded/*/meta.json, and copy the latest
detection result of every seed into its meta.json."""
import json, os, re

V = os.path.dirname(os.path.dirname(os.path.abspath(__file__)))


def latest_results():
    res = {}
    p = f"{V}/mutants/RESULTS.jsonl"
    if os.path.exists(p):
        for line in open(p):
            line = line.strip()
            if line:
                r = json.loads(line)
                res[r["id"]] = r
    return res


def esc(s):
    return s.replace("|", "\\|").replace("\n", " ")


def findings_table():
    kf = json.load(open(f"{V}/known_findings.json"))["findings"]
    out = ["| id | property | status | what | witness |", "|---|---|---|---|---|"]
    for f in kf:
        st = f["status"] + (f" `{f['commit']}`" if f.get("commit") else "")
        out.append(f"| {f['id']} | {f['property']} | {st} | {esc(f['what'])[:420]} | {esc(f.get('witness', ''))[:200]} |")
    return "\n".join(out)


def candidates_table(res):
    out = ["| mutant | owner | result | detected by |", "|---|---|---|---|"]
    for m in json.load(open(f"{V}/mutants/candidates.json"))["mutants"]:
        r = res.get(m["id"])
        if not r or "checks" not in r:
            continue
        out.append(f"| {m['id']} | {m['owner']} | {r['status']} | {', '.join(r['detected_by'])} |")
    return "\n".join(out)


def seeds_table(res):
    out = ["| seed | breaks | detected by (quick) | note |", "|---|---|---|---|"]
    for d in sorted(os.listdir(f"{V}/seeded")):
        mp = f"{V}/seeded/{d}/meta.json"
        meta = json.load(open(mp))
        r = res.get(d)
        note = meta.get("note", "")
        if meta.get("obsolete"):
            det = "-"
            why = str(meta.get("obsolete"))
            kind = "equivalent" if why.startswith("equivalent") else "obsolete"
            note = note or f"{kind}: " + (why if len(why) < 260 else why[:257] + "...")
        elif r and "checks" in r:
            det = ", ".join(r["detected_by"]) or "**MISSED**"
            meta["detected_by"] = r["detected_by"]
            meta["check_runs"] = {c: {"violation": v["violation"], "signatures": v["signatures"][:3], "wall_s": v["wall_s"]} for c, v in r["checks"].items()}
            json.dump(meta, open(mp, "w"), indent=1)
        else:
            det = "(not run)"
        out.append(f"| {d} | {' '.join(meta.get('properties', []))} | {det} | {note} |")
    return "\n".join(out)


def benign_table(res):
    out = ["| variation | area | result (all 20 quick checks) | what changes |", "|---|---|---|---|"]
    base = f"{V}/benign"
    for d in sorted(os.listdir(base)) if os.path.isdir(base) else []:
        meta = json.load(open(f"{base}/{d}/meta.json"))
        r = res.get(d)
        if r and "checks" in r:
            result = "quiet" if not r["detected_by"] else "**alarm: " + ", ".join(r["detected_by"]) + "**"
        else:
            result = "(not run)"
        if meta.get("first_result"):
            result += f" ({meta['first_result']})"
        out.append(f"| {d} | {' '.join(meta.get('properties', []))} | {result} | {esc(meta.get('summary', ''))} |")
    return "\n".join(out)


def bounds_table():
    th = json.load(open(f"{V}/tools/thorough_runs.json")) if os.path.exists(f"{V}/tools/thorough_runs.json") else {"checks": {}}
    out = ["| id | what the quick tier enumerates (the check's own coverage statement) | quick: evaluations / distinct / wall | thorough: evaluations / wall / RSS |", "|---|---|---|---|"]
    for i in range(1, 21):
        c = "C%02d" % i
        ep = f"{V}/evidence/{c}.json"
        if not os.path.exists(ep):
            continue
        e = json.load(open(ep))
        cov = e.get("coverage", {})
        rule = cov.get("rule", "")
        t = th["checks"].get(c)
        tcol = f"{t['evaluations']:,} / {t['wall_s']:.0f} s / {t.get('rss_mb', 0):,} MB" + ("" if t.get("exhaustive", True) else " (capped)") if t else "-"
        out.append(f"| {c} | {esc(rule)} | {cov.get('evaluations', 0):,} / {cov.get('distinct_nontrivial', 0):,} / {e.get('wall_s', 0):.0f} s | {tcol} |")
    return "\n".join(out)


def main():
    res = latest_results()
    tables = {"findings": findings_table(), "candidates": candidates_table(res), "seeds": seeds_table(res), "benign": benign_table(res), "bounds": bounds_table()}
    p = f"{V}/DESIGN.md"
    s = open(p).read()
    for k, t in tables.items():
        pat = re.compile(rf"(<!-- BEGIN:{k} -->\n).*?(\n?<!-- END:{k} -->)", re.S)
        if not pat.search(s):
            print(f"marker {k} missing")
            continue
        s = pat.sub(lambda m: m.group(1) + t + f"\n<!-- END:{k} -->", s)
    open(p, "w").write(s)
    kf = json.load(open(f"{V}/known_findings.json"))["findings"]
    print("findings:", len(kf), "open:", sum(f["status"] == "open" for f in kf))
    print("seeds:", len(os.listdir(f"{V}/seeded")))


if __name__ == "__main__":
    main()
