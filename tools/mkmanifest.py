#!/usr/bin/env python3
"""Regenerates /verif/MANIFEST.json from the table below (kept valid at all times)."""
import json, sys
BUILT = {
 # id: (category, engine, technique, text, note)
 "C07": ("exploration", "xotmc/E-TREE",
   "bounded exhaustive enumeration of all labelled ordered trees x all nodes x all traversal entry points on the real code, compared with lists computed on an abstract tree",
   "All trees up to the node bound (documents, fragment forests, unattached trees, detached attribute/namespace nodes) x every node x every traversal API and Axis value are executed on the real xot code and compared with the abstract tree's document-order lists; complete inside the bound, plus four large instances (chain/fan/attributes/comb).",
   "Trusts: tree construction through the creation API; the 150-line flat-tree reference. Bounded: <= 5 (quick) / 6-8 (thorough) ordinary nodes; fixed label alphabet."),
}
props = [json.loads(l) for l in open('/verif/properties.jsonl')]
checks = []
na = []
for p in props:
    i = p['id']
    if i in BUILT:
        cat, eng, tech, text, note = BUILT[i]
        checks.append({
          "property_id": i,
          "quick_cmd": f"./check {i} --tier quick",
          "thorough_cmd": f"./check {i} --tier thorough",
          "evidence_file": f"/verif/evidence/{i}.json",
          "replay_cmd_template": f"./check {i} --replay {{path}}",
          "engine": eng,
          "level_claimed": {"category": cat, "text": text, "design_ref": f"DESIGN.md section 3 ({i})"},
          "level_note": note,
          "technique": tech,
        })
    else:
        na.append({"property_id": i, "reason": "check not built yet in this round (planned: bounded exhaustive enumeration, DESIGN.md section 3)"})
m = {
 "version": 1,
 "setup_cmd": "cd /verif/mc && CARGO_NET_OFFLINE=true cargo build --offline",
 "hooks": {"guard": "xot_verif", "enable": "no hooks: every observation goes through the public API; the harness depends on /repo as a path dependency and is rebuilt by ./check",
           "baseline_off_cmd": "cd /repo && cargo test --workspace --no-fail-fast --offline", "source_commits": [], "add_only": True},
 "engines": [
   {"name": "xotmc", "path": "/verif/mc", "serves_properties": sorted(BUILT.keys()),
    "kind_free_text": "hand-written explicit-state / bounded-exhaustive explorer in Rust executing the real xot code in lock-step with reference models (E-BFS histories, E-TREE trees, E-STR strings, E-SPELL spellings, E-CFG configurations)"}],
 "checks": checks,
 "not_applicable": na,
 "notes": "Known genuine defects: /verif/known_findings.json (open entries are printed as KNOWN-FINDING and do not fail a check; fixed entries suppress nothing).",
}
json.dump(m, open('/verif/MANIFEST.json', 'w'), indent=1)
print("checks:", len(checks), "not_applicable:", len(na))
