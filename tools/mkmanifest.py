#!/usr/bin/env python3
"""Regenerates /verif/MANIFEST.json from the table below (kept valid at all times)."""
import json, sys
BUILT = {
 # id: (category, engine, technique, text, note)
 "C01": ("exploration", "xotmc/E-TREE+E-STR",
   "bounded exhaustive enumeration of strings, small documents/fragments and namespace layouts, each serialised and re-parsed on the real code and compared with the abstract tree",
   "Every string up to the length bound over a 12-character sharp alphabet (TAB, LF, CR, <, &, >, quotes, ], non-BMP) in attribute and text slots, every document/fragment up to the node bound, every serialisable namespace layout of 1-3 elements and every short namespace URI with characters that need escaping is serialised with to_string, re-parsed, and read back through public navigation; the result must equal the abstract tree (attribute set, declaration map). Trees are built three ways (creation API, parse, moving subtrees).",
   "Bounded: string length 4/5, 5/6 nodes, fixed alphabets. Trusts the read-back adapter and the abstract tree type."),
 "C04": ("model_checking", "xotmc/E-BFS",
   "explicit-state breadth-first search over forests: every mutating API call with every argument tuple of live handles executed on the real Xot, invariants I1-I6 evaluated on every reached state",
   "All histories up to the depth bound from six colliding start forests (plus a depth-1 sweep from every small tree) over the whole mutating alphabet, including the calls that should be refused; after every call that returns, structural invariants (parent/child/sibling consistency, acyclicity, namespace<attribute<ordinary order, unique keys, node kinds, no adjacent text while consolidation was never off, handle stability, is_removed monotonic, no accessor returns a removed node) are computed through public navigation.",
   "Bounded: depth 2/3; states deduplicated on a canonical key (argument in DESIGN 2.4)."),
 "C05": ("model_checking", "xotmc/E-BFS+MForest",
   "explicit-state BFS on the real code in lock-step with an ordered-tree reference model; full forest read-back compared after every in-contract successful call",
   "Every manipulation call with every in-contract argument tuple from colliding starts (consolidation on and off, depth 2/3) and from every small forest (depth 1): the reference model predicts the resulting forest, handle identity, liveness and string values; the real forest must match exactly.",
   "Trusts the 600-line MForest model (it agrees with the implementation on millions of transitions). Which node of a merged text run survives is only checked where statement and rustdoc agree."),
 "C06": ("model_checking", "xotmc/E-BFS",
   "explicit-state BFS with every argument tuple of live nodes; forest snapshot before/after every refused call; panics caught",
   "Every call of the mutating API with every tuple of live nodes of every kind from all reachable forests up to the depth bound: a panic outside the documented element-only accessors, or any observable change after an Err, is a violation.",
   "The oracle does not predict whether a call is refused. Bounded: depth 2/3."),
 "C07": ("exploration", "xotmc/E-TREE",
   "bounded exhaustive enumeration of all labelled ordered trees x all nodes x all traversal entry points on the real code, compared with lists computed on an abstract tree",
   "All trees up to the node bound (documents, fragment forests, unattached trees, detached attribute/namespace nodes) x every node x every traversal API and Axis value are executed on the real xot code and compared with the abstract tree's document-order lists; complete inside the bound, plus four large instances (chain/fan/attributes/comb).",
   "Trusts: tree construction through the creation API; the 150-line flat-tree reference. Bounded: <= 5 (quick) / 6-8 (thorough) ordinary nodes; fixed label alphabet."),
 "C08": ("model_checking", "xotmc/E-BFS+line",
   "explicit-state BFS over registration histories on the real Xot with a mirror of the three interning tables, plus a line of 70000 states per id kind crossing every id width",
   "Every history up to the depth bound over add_name / add_name_ns / add_namespace / add_prefix (8 strings), parse of 4 documents, html5(), Xot::clone: same id iff same string, ids resolve to their strings in every later state and in clones, lookups find exactly what is registered, built-ins distinct and standard. The boundary line registers 70000 distinct strings per kind (and 66000 element names through parse) checking distinctness and stability at every n.",
   "States of the line with equal n are symmetric (the tables are data-independent)."),
 "C09": ("exploration", "xotmc/E-TREE",
   "bounded exhaustive enumeration of namespace declaration layouts x nodes x prefixes x namespaces, compared with a nearest-declaration-wins resolver",
   "Every layout of 1-3 elements (540 declaration/name/attribute specs per element; reduced menu for the third element) attached and unattached: namespaces_in_scope, namespace_for_prefix, prefix_for_namespace, unresolved_namespaces, inherited_prefixes, full_name, name_ref, node_name_ref at every node against the NsScope model.",
   "Hash-ordered results compared as sets. Bounded alphabets: prefixes {'',p,q,xml,r}, namespaces {X,Y,XML,Z}."),
 "C10": ("model_checking", "xotmc/E-TREE+E-BFS+XmlRead",
   "exhaustive enumeration of namespace layouts in four placements plus explicit-state BFS over add/move/clone/repair histories on the real code; names of the output resolved by an independent XML reader",
   "Every layout of 1-3 elements without any serialisability filter (document, unattached element, in-place subtree, fragment), single detached nodes and element-less fragments: to_string is Err or text whose names, resolved by XmlRead, are the tree's expanded names; after create_missing_prefixes the tree serialises, reparses equal modulo declarations, nothing but declarations changed and none was overridden. Histories up to depth 3/4 alternate adding / moving / cloning nodes in four namespaces with create_missing_prefixes.",
   "Trusts XmlRead (400 lines, self-tested). Trees whose own declarations contradict their element names (no-namespace element declaring a default namespace) cannot be written in XML and are outside the repair clause."),
 "C11": ("model_checking", "xotmc/E-BFS",
   "explicit-state BFS over map-style and node-style updates on the real element, lock-step with an ordered reference map; every accessor of both views compared after every step",
   "All histories up to depth 4/5 from 9 starts over 62 operations (insert, remove, get_mut, the entry API, clear, set_/remove_ wrappers, append_*_node / any_append with fresh and foreign nodes, detach / remove of nodes) on attributes and namespaces: len, is_empty, contains_key, get, get_node, iter, keys, values, nodes, to_vec, to_hashmap of the read-only and the mutable view, return values, node identity and serialisation order agree with the reference.",
   "3 keys x 2 values per map."),
 "C12": ("model_checking", "xotmc/E-TREE+E-BFS",
   "exhaustive enumeration of clone sources (every node of every small tree, both consolidation modes) followed by every mutation confined to one side; clone_with_prefixes on every element of every namespace layout; Xot::clone of the BFS starts with every operation on either store",
   "clone_node: unattached, equal to the source, new handles only, source untouched, later mutations of one side never change the other; clone_with_prefixes: serialises whenever the source did in place, same names, own declarations kept; Xot::clone: handles denote equal nodes, stores independent.",
   "Mutation depth 1 after the clone; sources up to 4/5 ordinary nodes."),
 "C13": ("exploration", "xotmc/E-TREE pairs",
   "exhaustive enumeration of all ordered pairs (and triples of a subset) of small subtrees covering every single-feature difference; predicates compared with independently computed canonical forms",
   "All ordered pairs of ~1000 (quick) / ~5000 (thorough) subtrees x deep_equal, deep_equal_children, deep_equal_xpath, advanced_deep_equal (4 filters x 3 comparisons), shallow_equal, shallow_equal_ignore_attributes (all 40 ignore lists incl. repeats), string_value; transitivity on all triples of a subset.",
   "Trusts canon_f (60 lines). Comment / PI comparison under a custom text comparison is not pinned by the statement and accepted either way."),
 "C14": ("exploration", "xotmc/E-TREE+E-STR+E-CFG",
   "exhaustive enumeration of text strings over {],>,x,CR}, xml:space chains and small trees x every serialisation parameter combination; reparse compared with the source tree by an aligned walk",
   "Every parameter combination (CDATA-section subsets, unescaped_gt, six declaration forms, indentation with every suppress subset, document vs element root) on every tree of the three sweeps: without indentation the reparse must equal the source; with indentation only whitespace-only text nodes may be added, never in mixed content, xml:space=preserve scope or suppressed elements.",
   "Re-parsing uses xot's parser (the statement is about xot's reparse)."),
 "C15": ("exploration", "xotmc/E-TREE",
   "exhaustive enumeration of redundant namespace layouts; declarations, names and serialisability compared before/after deduplicate_namespaces",
   "Every layout of 1-3 elements, call on the document and on every element: declarations after are a sub-list of those before, nothing else changes, expressible trees stay serialisable and reparse equal, a second call removes nothing.",
   "The serialisability clause is checked for trees whose names are all expressible (others are C10's subject)."),
 "C16": ("exploration", "xotmc/E-TREE+E-CFG",
   "exhaustive enumeration of serialisable trees x serialisation roots x token parameters; token / event streams compared with string serialisation and with an expected event list computed on the abstract tree",
   "tokens, pretty_tokens, outputs, write and serialize_xml_write against serialize_xml_string for every ordinary node of every tree as root and all 16 parameter combinations.",
   "Order of inherited prefix events on the top element is compared as a set."),
 "C18": ("exploration", "xotmc/E-TREE",
   "exhaustive enumeration of sibling arrangements of whitespace / non-whitespace / Unicode-space text, elements and comments under nested xml:space values; result compared with the statement's definition",
   "Every sequence of up to 4 (5) children from a 10-item menu under 2 (3) levels of xml:space values, called on the document, the element and a text node; removed set must be exactly the model's, everything else identical with the same handles; second call changes nothing.",
   "Empty text nodes are outside the alphabet."),
 "C19": ("exploration", "xotmc/E-TREE+E-CFG+HtmlScan",
   "exhaustive enumeration of HTML / XHTML / MathML / SVG / foreign element trees x text and attribute strings x parameters; output scanned by an independent HTML tokenizer and walked in lock-step with the tree",
   "Single elements (11 names x 5 namespaces x declaration styles x attribute and text strings over {<,&,\",',>,U+00A0,x}), all ordered sibling pairs of 19 children under 4 parents, detached nodes of every kind and text under a document, x CDATA-section elements x indentation: no panic, doctype first, HTML elements unprefixed / never self-closed / end tag unless void, MathML and SVG under their default namespace, text and attribute escaping, PIs containing '>' refused.",
   "Trusts HtmlScan (120 lines). script / style with element children and foreign elements named script / style are outside the alphabet (not representable in HTML)."),
 "C20": ("exploration", "xotmc/E-TREE x programs",
   "exhaustive enumeration of small documents x all permutations of the attach steps x two neighbour preferences, plus parse and fixed:: routes; trees compared by read-back, deep_equal and bytes",
   "Every abstract document up to the step bound is built by parsing its rendering, by fixed::Document/Element xotify and by every order of stepwise attachment (append/prepend/insert_before/insert_after, bottom-up included); all must read back as the abstract document and serialise identically.",
   "Orders that transiently make two text nodes adjacent are skipped (consolidation would merge them)."),
}
props = [json.loads(l) for l in open('/verif/properties.jsonl')]
checks = []
na = []
for p in props:
    i = p['id']
    if i in BUILT:
        cat, eng, tech, text, note = BUILT[i]
        checks.append({
          "property_id": i,
          "quick_cmd": f"./check {i} --tier quick",
          "thorough_cmd": f"./check {i} --tier thorough",
          "evidence_file": f"/verif/evidence/{i}.json",
          "replay_cmd_template": f"./check {i} --replay {{path}}",
          "engine": eng,
          "level_claimed": {"category": cat, "text": text, "design_ref": f"DESIGN.md section 3 ({i})"},
          "level_note": note,
          "technique": tech,
        })
    else:
        na.append({"property_id": i, "reason": "check not built yet in this round (planned: bounded exhaustive enumeration, DESIGN.md section 3)"})
m = {
 "version": 1,
 "setup_cmd": "cd /verif/mc && CARGO_NET_OFFLINE=true cargo build --offline",
 "hooks": {"guard": "xot_verif", "enable": "no hooks: every observation goes through the public API; the harness depends on /repo as a path dependency and is rebuilt by ./check",
           "baseline_off_cmd": "cd /repo && cargo test --workspace --no-fail-fast --offline", "source_commits": [], "add_only": True},
 "engines": [
   {"name": "xotmc", "path": "/verif/mc", "serves_properties": sorted(BUILT.keys()),
    "kind_free_text": "hand-written explicit-state / bounded-exhaustive explorer in Rust executing the real xot code in lock-step with reference models (E-BFS histories, E-TREE trees, E-STR strings, E-SPELL spellings, E-CFG configurations)"}],
 "checks": checks,
 "not_applicable": na,
 "notes": "Known genuine defects: /verif/known_findings.json (open entries are printed as KNOWN-FINDING and do not fail a check; fixed entries suppress nothing).",
}
json.dump(m, open('/verif/MANIFEST.json', 'w'), indent=1)
print("checks:", len(checks), "not_applicable:", len(na))
